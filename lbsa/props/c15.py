"""C15 — script templates: generation and parsing are mutually inverse and unambiguous."""
import ast

from .. import AnalysisError
from ..astutil import dotted, call_name, unparse, norm_text, walk_local_body, kwarg, is_const
from ..consteval import Evaluator, Unknown
from .. import rules as R
from .. import terms

EXPLANATION = (
    "Decision procedure over the statically reconstructed template table. The class bodies of InputScript and "
    "OutputScript are evaluated by the checker (Template(...) calls, PUSH_* constructors, tuple concatenation, "
    ".opcodes reuse, folded OP_* values) into the 6 + 13 templates. T1: every opcode kind occurring in a template "
    "has a branch in Template.generate and in Parser.parse/push_single. T2: the push-data writer and reader "
    "ladders agree at the exact boundaries (< 0x4c direct, <= 0xFF PUSHDATA1+u8, <= 0xFFFF PUSHDATA2+u16, else "
    "PUSHDATA4+u32 — minimal encoding), is_push_data_token is 1..OP_PUSHDATA4, small integers are inverse on "
    "1..16, the tokenizer runs until the stream is exhausted (None), and the parser accepts OP_0 as the empty "
    "push. T3: no two registered templates (multi-signature ones excluded, as in the statement) unify under the "
    "token model, pair by pair, exhaustively. T4: every is_* predicate, evaluated on all 13 names, selects exactly "
    "the templates whose opcodes say so (claim/update/support prefix opcode, payment tail), and every constructor "
    "passes exactly the template's named pushes. T5: txo_to_row never stores a claim/update output as a plain "
    "payment (`other`), supports as support, purchases as purchase; coin selection restricts to other/purchase "
    "(C03/C14); Input.spend asserts pay-to-pubkey-hash."
)
EXACTNESS = "Second pass (DESIGN.md §10, exactness / completeness halves) — per opcode kind what the generator writes and the parser stores, cursor discipline of the parser, first matching template wins, tokenizer classification."
TECHNIQUE = "static analysis: constant evaluation of the template table, exhaustive pairwise non-unifiability, exact-boundary ladder comparison, predicate/opcode table agreement; exact fact-set comparison of the tests dominating each effect and refusal (effect / refusal tables), fall-through path queries"
NOT_DECIDED = "that an arbitrary generated script parses back to the same values at every data length beyond ladder agreement (BCDataStream behaviour); multi-signature template ambiguity (outside the statement)"
ASSUMPTIONS = ["template tuples are only built at class-definition time (no run-time registration)"]

S = "lbry.wallet.script"
KINDS = ("PUSH_SINGLE", "PUSH_INTEGER", "PUSH_MANY", "PUSH_SUBSCRIPT", "SMALL_INTEGER")


class Tpl:
    def __init__(self, name, ops):
        self.name, self.ops = name, ops

    def __repr__(self):
        return f"Tpl({self.name})"


def build_tables(prog, ev):
    mod = prog.module(S)
    out = {}
    for cname in ("InputScript", "OutputScript"):
        cls = prog.cls(f"{S}.{cname}")
        env = {}

        def val(e):
            if isinstance(e, ast.Call):
                fn = dotted(e.func)
                if fn == "Template":
                    name = e.args[0].value
                    ops = val(e.args[1])
                    return Tpl(name, tuple(ops) if ops is not None else None)
                if fn in KINDS:
                    args = [val(a) if not isinstance(a, ast.Constant) else a.value for a in e.args]
                    return (fn,) + tuple(args)
                raise AnalysisError(f"C15: cannot evaluate call {unparse(e)[:60]}")
            if isinstance(e, ast.Tuple):
                return tuple(val(x) for x in e.elts)
            if isinstance(e, ast.List):
                return [val(x) for x in e.elts]
            if isinstance(e, ast.BinOp) and isinstance(e.op, ast.Add):
                return tuple(val(e.left)) + tuple(val(e.right))
            if isinstance(e, ast.Name):
                if e.id in env:
                    return env[e.id]
                try:
                    return ev.name(mod, e.id)
                except Unknown:
                    raise AnalysisError(f"C15: cannot fold {e.id}")
            if isinstance(e, ast.Attribute) and e.attr == "opcodes":
                t = val(e.value)
                return t.ops
            if isinstance(e, ast.Constant):
                return e.value
            raise AnalysisError(f"C15: cannot evaluate {unparse(e)[:60]}")

        for st in cls.node.body:
            tg = None
            if isinstance(st, ast.Assign) and len(st.targets) == 1 and isinstance(st.targets[0], ast.Name):
                tg, v = st.targets[0].id, st.value
            elif isinstance(st, ast.AnnAssign) and isinstance(st.target, ast.Name) and st.value is not None:
                tg, v = st.target.id, st.value
            if tg is None or tg == "__slots__":
                continue
            env[tg] = val(v)
        out[cname] = env
    return out


def opkind(o):
    return o[0] if isinstance(o, tuple) else "literal"


def accepted(o, OP):
    """token classes a template element can match under token_producer + Parser.parse"""
    k = opkind(o)
    if k == "PUSH_SINGLE":
        return {"data", "tok:0"}
    if k in ("PUSH_INTEGER", "PUSH_SUBSCRIPT", "PUSH_MANY"):
        return {"data"}
    if k == "SMALL_INTEGER":
        return {"smallint"}
    v = o
    if 1 <= v <= OP["OP_PUSHDATA4"] or OP["OP_1"] <= v <= OP["OP_16"]:
        return set()          # the tokenizer never yields such a literal token
    return {f"tok:{v}"}


def check(ctx):
    prog = ctx.prog
    ev = Evaluator(prog)
    mod = prog.module(S)
    tables = build_tables(prog, ev)
    OP = {n: ev.name(mod, n) for n in mod.assigns if n.startswith("OP_")}
    ins, outs = tables["InputScript"], tables["OutputScript"]
    in_t = [t for t in ins.values() if isinstance(t, Tpl)]
    out_t = [t for t in outs.values() if isinstance(t, Tpl)]
    reg_in, reg_out = ins.get("templates", []), outs.get("templates", [])
    ctx.ob("C15-T0/TABLE", len(in_t) == 6 and len(out_t) == 13 and len(reg_in) == 4 and len(reg_out) == 13, f"{mod.relpath}:351",
           "template table reconstructed: 6 input templates (4 registered), 13 output templates (all registered)",
           detail=f"{len(in_t)} input ({len(reg_in)} registered), {len(out_t)} output ({len(reg_out)} registered)")
    ctx.ob("C15-T0/TABLE", len({t.name for t in out_t}) == len(out_t) and len({t.name for t in in_t}) == len(in_t), f"{mod.relpath}:351", "template names are unique")
    handlers(ctx, prog, in_t + out_t)
    ladders(ctx, prog, ev, mod, OP)
    unambiguous(ctx, prog, mod, reg_in, reg_out, OP)
    classification(ctx, prog, mod, outs, out_t, OP)
    constructors(ctx, prog, ins, outs)
    not_change(ctx, prog)


def handlers(ctx, prog, all_t):
    used = set()
    for t in all_t:
        for o in (t.ops or ()):
            used.add(opkind(o))
    gen = ctx.fa(f"{S}.Template.generate")
    gk = set()
    for n in walk_local_body(gen.node):
        if isinstance(n, ast.Call) and dotted(n.func) == "isinstance" and len(n.args) == 2 and dotted(n.args[0]) == "opcode":
            gk |= {dotted(x) for x in (n.args[1].elts if isinstance(n.args[1], ast.Tuple) else [n.args[1]])}
    has_else = "source.write_uint8(opcode)" in unparse(gen.node)
    for k in sorted(used):
        ok = (k in gk) if k != "literal" else has_else
        ctx.ob("C15-T1/EXHAUST", ok, gen.site(), f"Template.generate handles opcode kind {k}", func=gen.fi.qualname, key=f"C15-T1/EXHAUST|generate|{k}")
    pa = ctx.fa(f"{S}.Parser.parse")
    ps = ctx.fa(f"{S}.Parser.push_single")
    pk = set()
    for fa in (pa, ps):
        for n in walk_local_body(fa.node):
            if isinstance(n, ast.Call) and dotted(n.func) == "isinstance" and len(n.args) == 2 and dotted(n.args[0]) == "opcode":
                pk |= {dotted(x) for x in (n.args[1].elts if isinstance(n.args[1], ast.Tuple) else [n.args[1]])}
    lit = "token.value == opcode" in unparse(pa.node)
    for k in sorted(used):
        ok = (k in pk) if k != "literal" else lit
        ctx.ob("C15-T1/EXHAUST", ok, pa.site(), f"Parser handles opcode kind {k}", func=pa.fi.qualname, key=f"C15-T1/EXHAUST|parse|{k}")
    # generate/parse agree per kind on the value transformation
    tg, tp = unparse(gen.node), unparse(ps.node)
    ok = "source.write_many(push_data(data.source))" in tg and "Script.from_source_with_template(value, opcode.template)" in tp
    ctx.ob("C15-T1/SYM", ok, gen.site(), "PUSH_SUBSCRIPT: the sub-script's source is pushed / re-wrapped with the sub-template", func=gen.fi.qualname)
    ok = "int.from_bytes(value, 'little')" in tp and "byteorder='little'" in tg
    ctx.ob("C15-T1/SYM", ok, gen.site(), "PUSH_INTEGER: little-endian on both sides", func=gen.fi.qualname)
    ok = "self.values[opcode.name] = value" in tp and "data = values[opcode.name]" in tg and "source.write_many(push_data(data))" in tg
    ctx.ob("C15-T1/SYM", ok, gen.site(), "PUSH_SINGLE: the value is pushed / stored unchanged under the opcode's name", func=gen.fi.qualname)
    # parser completeness checks
    rz = R.raise_kinds(pa)
    ok = any(pa.guarded(x, "self.token_index < len(self.tokens)")[0] for x, k in rz) and any(pa.guarded(x, "self.opcode_index < len(self.opcodes)")[0] for x, k in rz)
    ctx.ob("C15-T1/GATE", ok, pa.site(), "a parse succeeds only if all tokens and all opcodes were consumed", func=pa.fi.qualname)
    sp = ctx.fa(f"{S}.Script.parse")
    rz = R.raise_kinds(sp)
    ctx.ob("C15-T1/GATE", any(k == "ValueError" for _, k in rz) and "for template in chain((template_hint,), self.templates)" in unparse(sp.node), sp.site(),
           "classification is total: every registered template is tried, otherwise ValueError", func=sp.fi.qualname)


def ladders(ctx, prog, ev, mod, OP):
    ctx.ob("C15-T2/CONST", (OP.get("OP_PUSHDATA1"), OP.get("OP_PUSHDATA2"), OP.get("OP_PUSHDATA4")) == (0x4c, 0x4d, 0x4e), f"{mod.relpath}:22",
           "OP_PUSHDATA1/2/4 fold to 0x4c/0x4d/0x4e")
    ctx.ob("C15-T2/CONST", (OP.get("OP_1"), OP.get("OP_16"), OP.get("OP_0")) == (0x51, 0x60, 0), f"{mod.relpath}:11", "OP_0, OP_1..OP_16 fold to 0x00, 0x51..0x60")
    pd = ctx.fa(f"{S}.push_data")
    q = pd.fi.qualname
    ys = [n for n in pd.local_nodes(ast.Yield)]
    sz = "size"
    szd = [s for s in pd.stmts(ast.Assign) if any(dotted(t) == sz for t in s.targets)]
    ctx.ob("C15-T2/LADDER", len(szd) == 1 and unparse(szd[0].value) == f"len({pd.fi.params()[0]})", pd.site(), "the ladder is driven by len(data)", func=q)
    ladder = [
        (f"{sz} < OP_PUSHDATA1", [f"BCDataStream.uint8.pack({sz})"], "below 0x4c: the length byte is the opcode"),
        (f"not {sz} < OP_PUSHDATA1 and {sz} <= 255", ["BCDataStream.uint8.pack(OP_PUSHDATA1)", f"BCDataStream.uint8.pack({sz})"], "0x4c..0xFF: PUSHDATA1 + u8"),
        (f"not {sz} < OP_PUSHDATA1 and not {sz} <= 255 and {sz} <= 65535", ["BCDataStream.uint8.pack(OP_PUSHDATA2)", f"BCDataStream.uint16.pack({sz})"], "0x100..0xFFFF: PUSHDATA2 + u16"),
        (f"not {sz} < OP_PUSHDATA1 and not {sz} <= 255 and not {sz} <= 65535", ["BCDataStream.uint8.pack(OP_PUSHDATA4)", f"BCDataStream.uint32.pack({sz})"], "above: PUSHDATA4 + u32"),
    ]
    used = set()
    for g, vals, what in ladder:
        okall, detail = True, ""
        for v in vals:
            hit = None
            for y in ys:
                if id(y) in used or y.value is None or unparse(y.value) != v:
                    continue
                have, F = R.atomic_facts_at(pd, y)
                if set(terms.parse_guard(g)) == set(have):
                    hit = y
                    break
            if hit is None:
                okall, detail = False, f"no `yield {v}` under exactly `{g}`"
                break
            used.add(id(hit))
        ctx.ob("C15-T2/LADDER", okall, pd.site(), f"push writer, {what} (minimal encoding: each boundary is the maximum of the narrower form)", detail=detail, func=q,
               key=f"C15-T2/LADDER|{q}|{vals[0]}")
    last = [y for y in ys if y.value is not None and unparse(y.value) == f"bytes({pd.fi.params()[0]})"]
    ok = len(last) == 1 and not R.atomic_facts_at(pd, last[0])[0] and len(ys) == 8
    ctx.ob("C15-T2/LADDER", ok, pd.site(), "then the data itself, unconditionally", func=q)
    rd = ctx.fa(f"{S}.read_data")
    rq = rd.fi.qualname
    tk = rd.fi.params()[0]
    want = [(f"{tk} < OP_PUSHDATA1", f"stream.read({tk})"), (f"not {tk} < OP_PUSHDATA1 and {tk} == OP_PUSHDATA1", "stream.read(stream.read_uint8())"),
            (f"not {tk} < OP_PUSHDATA1 and not {tk} == OP_PUSHDATA1 and {tk} == OP_PUSHDATA2", "stream.read(stream.read_uint16())"),
            (f"not {tk} < OP_PUSHDATA1 and not {tk} == OP_PUSHDATA1 and not {tk} == OP_PUSHDATA2", "stream.read(stream.read_uint32())")]
    rets = rd.stmts(ast.Return)
    for g, v in want:
        hit = [r for r in rets if unparse(r.value) == v]
        ok = bool(hit) and set(terms.parse_guard(g)) == set(R.atomic_facts_at(rd, hit[0])[0])
        ctx.ob("C15-T2/LADDER", ok, rd.site(hit[0]) if hit else rd.site(), f"push reader: `{v}` under `{g.split(' and ')[-1]}` — the width the writer used", func=rq,
               key=f"C15-T2/LADDER|{rq}|{v}")
    ip = ctx.fa(f"{S}.is_push_data_token")
    r = R.single_return_value(ip)
    ctx.ob("C15-T2/LADDER", r is not None and unparse(r.value) == f"1 <= {ip.fi.params()[0]} <= OP_PUSHDATA4", ip.site(), "a push token is 1..OP_PUSHDATA4", func=ip.fi.qualname)
    # small integers
    psi, rsi, isi = ctx.fa(f"{S}.push_small_integer"), ctx.fa(f"{S}.read_small_integer"), ctx.fa(f"{S}.is_small_integer")
    n = psi.fi.params()[0]
    ok = f"yield BCDataStream.uint8.pack(OP_1 + ({n} - 1))" in unparse(psi.node) and f"assert 1 <= {n} <= 16" in unparse(psi.node)
    r1, r2 = R.single_return_value(rsi), R.single_return_value(isi)
    ok = ok and r1 is not None and unparse(r1.value) == f"{rsi.fi.params()[0]} - OP_1 + 1" and r2 is not None and unparse(r2.value) == f"OP_1 <= {isi.fi.params()[0]} <= OP_16" \
        and OP["OP_16"] - OP["OP_1"] == 15
    ctx.ob("C15-T2/SYM", ok, psi.site(), "small integers 1..16 ↔ OP_1..OP_16 are inverse of each other", func=psi.fi.qualname)
    # tokenizer
    tp = ctx.fa(f"{S}.token_producer")
    tq = tp.fi.qualname
    loops = tp.stmts(ast.While)
    ok = len(loops) == 1 and terms.conj(loops[0].test) == terms.parse_guard("token is not None")
    ctx.ob("C15-T2/TOKEN", ok, tp.site(loops[0]) if loops else tp.site(), "the tokenizer runs until the stream is exhausted (`token is not None`): OP_0 (a zero byte) "
           "does not end it", detail="" if ok else (unparse(loops[0].test) if loops else "no while loop"), func=tq, key=f"C15-T2/TOKEN|{tq}|until-none")
    t = unparse(tp.node)
    ok = "if is_push_data_token(token)" in t and "yield DataToken(read_data(token, source))" in t and "elif is_small_integer(token)" in t and \
        "yield SmallIntegerToken(read_small_integer(token))" in t and "yield Token(token)" in t and t.count("token = source.read_uint8()") == 2
    ctx.ob("C15-T2/TOKEN", ok, tp.site(), "each byte is classified as push / small integer / plain opcode and the next byte is read afterwards", func=tq)
    pa = ctx.fa(f"{S}.Parser.parse")
    emp = [s for s in pa.stmts(ast.Assign) if unparse(s.value) == "DataToken(b'')"]
    ok = len(emp) == 1 and pa.guarded(emp[0], "token.value == 0 and isinstance(opcode, PUSH_SINGLE)")[0]
    ctx.ob("C15-T2/TOKEN", ok, pa.site(), "OP_0 where a PUSH_SINGLE is expected parses as the empty push (what the writer emits for empty data)", func=pa.fi.qualname,
           key="C15-T2/TOKEN|empty-push")


def unambiguous(ctx, prog, mod, reg_in, reg_out, OP):
    def has_many(t):
        return any(opkind(o) == "PUSH_MANY" for o in (t.ops or ()))
    n = 0
    for label, lst in (("output", reg_out), ("input", [t for t in reg_in if not has_many(t)])):
        for i in range(len(lst)):
            for j in range(i + 1, len(lst)):
                a, b = lst[i], lst[j]
                n += 1
                unify = len(a.ops) == len(b.ops) and all(accepted(x, OP) & accepted(y, OP) for x, y in zip(a.ops, b.ops))
                ctx.ob("C15-T3/UNAMBIG", not unify, f"{mod.relpath}:300", f"{label} templates `{a.name}` and `{b.name}` accept no common token sequence",
                       detail="" if not unify else "every position has a token both accept: a script of this shape is classified by list order only",
                       key=f"C15-T3/UNAMBIG|{a.name}|{b.name}")
    ctx.floor("C15-T3/UNAMBIG", "template pairs compared", n, 79, site=f"{mod.relpath}:300")
    # classification is first-match in list order: a template with a greedy PUSH_MANY element accepts token sequences that fixed-shape templates accept too
    # (an empty push is the byte OP_0), so every fixed-shape template must be tried before any greedy one
    for label, lst in (("input", reg_in), ("output", reg_out)):
        many = [i for i, t in enumerate(lst) if has_many(t)]
        fixed = [i for i, t in enumerate(lst) if not has_many(t)]
        ok = not many or not fixed or min(many) > max(fixed)
        ctx.ob("C15-T3/UNAMBIG", ok, f"{mod.relpath}:300", f"{label} templates: every fixed-shape template is registered before any template with a PUSH_MANY element",
               detail="" if ok else "order: " + ", ".join(f"{t.name}{'*' if has_many(t) else ''}" for t in lst), key=f"C15-T3/UNAMBIG|order|{label}")
    # every element of every registered template can match something
    for t in reg_out + reg_in:
        dead = [o for o in (t.ops or ()) if not accepted(o, OP)]
        ctx.ob("C15-T3/UNAMBIG", not dead, f"{mod.relpath}:300", f"every element of `{t.name}` is matchable by the tokenizer's output", detail=str(dead),
               key=f"C15-T3/UNAMBIG|matchable|{t.name}")


def classification(ctx, prog, mod, outs, out_t, OP):
    cls = prog.cls(f"{S}.OutputScript")
    names = [t.name for t in out_t]
    pph, psh = outs["PAY_PUBKEY_HASH"].ops, outs["PAY_SCRIPT_HASH"].ops
    full, ret = outs["PAY_PUBKEY_FULL"].ops, outs["RETURN_DATA"].ops

    def tail(t, ops):
        return len(t.ops) >= len(ops) and t.ops[-len(ops):] == ops

    def pushes_before_drop(t):
        k = 0
        for o in t.ops[1:]:
            if opkind(o) == "PUSH_SINGLE":
                k += 1
            else:
                break
        return k
    truth = {
        "is_claim_name": {t.name for t in out_t if t.ops[0] == OP["OP_CLAIM_NAME"]},
        "is_update_claim": {t.name for t in out_t if t.ops[0] == OP["OP_UPDATE_CLAIM"]},
        "is_support_claim": {t.name for t in out_t if t.ops[0] == OP["OP_SUPPORT_CLAIM"]},
        "is_support_claim_data": {t.name for t in out_t if t.ops[0] == OP["OP_SUPPORT_CLAIM"] and pushes_before_drop(t) == 3},
        "is_pay_pubkey_hash": {t.name for t in out_t if tail(t, pph)},
        "is_pay_script_hash": {t.name for t in out_t if tail(t, psh)},
        "is_return_data": {t.name for t in out_t if tail(t, ret) and t.ops == ret},
        "is_pay_pubkey": {t.name for t in out_t if t.ops == full},
    }
    for pname, want in truth.items():
        m = cls.methods.get(pname)
        if m is None:
            ctx.ob("C15-T4/CLASSIFY", False, f"{mod.relpath}:{cls.node.lineno}", f"mechanism present: OutputScript.{pname}", key=f"C15-T4/CLASSIFY|{pname}")
            continue
        r = [s for s in m.node.body if isinstance(s, ast.Return)]
        got = None
        if len(r) == 1 and isinstance(r[0].value, ast.Call) and isinstance(r[0].value.func, ast.Attribute) and r[0].value.func.attr in ("startswith", "endswith") \
                and unparse(r[0].value.func.value) == "self.template.name" and len(r[0].value.args) == 1 and isinstance(r[0].value.args[0], ast.Constant):
            lit = r[0].value.args[0].value
            fn = r[0].value.func.attr
            got = {n for n in names if getattr(n, fn)(lit)}
        ok = got == want
        ctx.ob("C15-T4/CLASSIFY", ok, m.site(), f"{pname} selects exactly the templates whose opcodes say so ({len(want)} of 13)",
               detail="" if ok else f"predicate selects {sorted(got) if got is not None else 'unrecognised form'}; opcodes say {sorted(want)}", func=m.qualname,
               key=f"C15-T4/CLASSIFY|{pname}")
    # name structure == opcode structure for every template
    for t in out_t:
        pre = {OP["OP_CLAIM_NAME"]: "claim_name+", OP["OP_UPDATE_CLAIM"]: "update_claim+", OP["OP_SUPPORT_CLAIM"]: "support_claim+"}.get(t.ops[0])
        ok = (t.name.startswith(pre) if pre else not t.name.startswith(("claim_name+", "update_claim+", "support_claim+")))
        ctx.ob("C15-T4/CLASSIFY", ok, f"{mod.relpath}:{cls.node.lineno}", f"`{t.name}`: claim/update/support prefix in the name iff its first opcode is that claim opcode",
               key=f"C15-T4/CLASSIFY|name|{t.name}")
    inv = cls.methods.get("is_claim_involved")
    ok = inv is not None and "any((self.is_claim_name, self.is_support_claim, self.is_update_claim))" in unparse(inv.node)
    ctx.ob("C15-T4/CLASSIFY", ok, inv.site() if inv else "?", "is_claim_involved = claim or support or update", func=getattr(inv, "qualname", None))
    oc = prog.cls("lbry.wallet.transaction.Output")
    for pn, want in (("is_claim", "self.script.is_claim_name or self.script.is_update_claim"), ("is_support", "self.script.is_support_claim")):
        m = oc.methods.get(pn)
        r = [s for s in m.node.body if isinstance(s, ast.Return)] if m else []
        ok = len(r) == 1 and unparse(r[0].value) == want
        ctx.ob("C15-T4/CLASSIFY", ok, m.site() if m else "?", f"Output.{pn} is `{want}`", func=getattr(m, "qualname", None), key=f"C15-T4/CLASSIFY|Output.{pn}")


def constructors(ctx, prog, ins, outs):
    for cname, env in (("InputScript", ins), ("OutputScript", outs)):
        cls = prog.cls(f"{S}.{cname}")
        for m in cls.methods.values():
            if "classmethod" not in m.decorators():
                continue
            for c in [x for x in walk_local_body(m.node) if isinstance(x, ast.Call) and dotted(x.func) == "cls"]:
                tpl, vals = kwarg(c, "template"), kwarg(c, "values")
                if tpl is None or not isinstance(vals, ast.Dict):
                    continue
                tn = (dotted(tpl) or "").replace("cls.", "")
                t = env.get(tn)
                if not isinstance(t, Tpl):
                    continue
                want = {o[1] for o in t.ops if isinstance(o, tuple)}
                got = {k.value for k in vals.keys if isinstance(k, ast.Constant)}
                ctx.ob("C15-T4/KEYS", got == want, m.site(c), f"{cname}.{m.name}: values passed == named pushes of {tn}",
                       detail="" if got == want else f"passed {sorted(got)}, template needs {sorted(want)}", func=m.qualname, key=f"C15-T4/KEYS|{m.qualname}|{tn}")


def not_change(ctx, prog):
    fa = ctx.fa("lbry.wallet.database.Database.txo_to_row")
    q = fa.fi.qualname
    ty = [s for s in fa.stmts(ast.Assign) if any(unparse(t) == "row['txo_type']" for t in s.targets)]
    ctx.floor("C15-T5/TYPE", "txo_type assignments in txo_to_row", len(ty), 4, site=fa.site(), func=q)
    consts = prog.module("lbry.wallet.constants")
    ev = Evaluator(prog)
    types = ev.name(consts, "TXO_TYPES")
    for s in ty:
        v = s.value
        claim = fa.guarded(s, "txo.is_claim")[0]
        sup = fa.guarded(s, "not txo.is_claim and txo.is_support")[0]
        pur = fa.guarded(s, "not txo.is_claim and not txo.is_support and txo.purchase is not None")[0]
        keys = [n.slice.value for n in ast.walk(v) if isinstance(n, ast.Subscript) and dotted(n.value) == "TXO_TYPES" and isinstance(n.slice, ast.Constant)]
        exist = all(k in types for k in keys)
        if claim:
            ok = exist and "other" not in keys and bool(keys) and not any(isinstance(n, ast.Constant) and n.value == 0 for n in ast.walk(v))
            what = "a claim/update output is stored with a claim type (default `stream`), never as a plain payment (`other`): value locked in a claim is not spendable change"
        elif sup:
            ok, what = keys == ["support"], "a support output is stored as `support`"
        elif pur:
            ok, what = keys == ["purchase"], "a purchase output is stored as `purchase`"
        else:
            ok, what = False, "a txo_type is assigned under a recognised classification"
        ctx.ob("C15-T5/TYPE", ok, fa.site(s), what, detail="" if ok else norm_text(s), func=q, key=f"C15-T5/TYPE|{q}|{'claim' if claim else 'support' if sup else 'purchase' if pur else 'other'}|{norm_text(s)[:50]}")
    # both arms of the claim branch assign a type
    isc = [s for s in fa.stmts(ast.If) if unparse(s.test) == "txo.is_claim"]
    if isc:
        inner = [s for s in isc[0].body if isinstance(s, ast.If)]
        ok = len(inner) == 1 and any(s in ty for s in inner[0].body) and any(s in ty for s in inner[0].orelse)
        ctx.ob("C15-T5/TYPE", ok, fa.site(isc[0]), "decodable and undecodable claims both get a claim type", func=q)
    # schema default of the column is `other` (0): an output no branch classifies is a plain payment
    sp = ctx.fa("lbry.wallet.transaction.Input.spend")
    ok = "assert txo.script.is_pay_pubkey_hash" in unparse(sp.node)
    ctx.ob("C15-T5/TYPE", ok, sp.site(), "Input.spend refuses anything that does not end in pay-to-pubkey-hash", func=sp.fi.qualname)


_base_check_c15 = check


def check(ctx):            # noqa: F811  (extends the rules above)
    _base_check_c15(ctx)
    engines(ctx, ctx.prog)
    payloads(ctx, ctx.prog)


def payloads(ctx, prog):
    """push_data(x) writes len(x) as the length prefix and bytes(x) as the payload.  Claim / support payloads are Signable objects, not bytes: the two
    views agree only if __len__ IS the length of __bytes__ — a separately computed length (fixed signature size, …) mis-frames every payload whose
    real size differs and the script no longer parses back."""
    import ast
    from ..astutil import unparse, dotted
    from .. import rules as R
    pd = ctx.fa(f"{S}.push_data")
    d = pd.fi.params()[0]
    sz = [s for s in pd.stmts(ast.Assign) if unparse(s.value) == f"len({d})"]
    ys = [y for y in pd.local_nodes(ast.Yield) if y.value is not None and unparse(y.value) == f"bytes({d})"]
    ctx.ob("C15-T7/PAYLOAD", len(sz) == 1 and len(ys) == 1, pd.site(), "push_data: prefix from len(data), payload bytes(data)", func=pd.fi.qualname, key="C15-T7/PAYLOAD|push_data")
    n = 0
    for cq, c in sorted(prog.classes.items()):
        if not cq.startswith("lbry.schema.") or "__bytes__" not in c.methods:
            continue
        n += 1
        fb = ctx.fa(f"{cq}.__bytes__")
        rb = R.single_return_value(fb)
        if "__len__" not in c.methods:
            ctx.ob("C15-T7/PAYLOAD", False, fb.site(), f"{c.name} defines __len__ next to __bytes__", func=fb.fi.qualname, key=f"C15-T7/PAYLOAD|{cq}|has-len")
            continue
        fl = ctx.fa(f"{cq}.__len__")
        rl = R.single_return_value(fl)
        ok = rb is not None and rl is not None and unparse(rl.value) in (f"len({unparse(rb.value)})", "len(bytes(self))", "len(self.__bytes__())")
        ctx.ob("C15-T7/PAYLOAD", ok, fl.site(), f"{c.name}.__len__ is the length of exactly what __bytes__ returns", detail="" if ok else f"__len__: {unparse(rl.value) if rl else '?'}; "
               f"__bytes__: {unparse(rb.value) if rb else '?'}", func=fl.fi.qualname, key=f"C15-T7/PAYLOAD|{cq}|len-of-bytes")
    ctx.floor("C15-T7/PAYLOAD", "schema classes with __bytes__", n, 1)


def engines(ctx, prog):
    """the generic generate / parse engines that every template goes through: per opcode kind the generator writes and the parser stores
    under exactly that kind's test; cursors start at 0, advance by one and must both be exhausted"""
    import ast
    from ..astutil import norm_text, dotted, is_const
    from .. import rules as R
    S = "lbry.wallet.script"
    kinds = ["isinstance(opcode, PUSH_SINGLE)", "isinstance(opcode, PUSH_INTEGER)", "isinstance(opcode, PUSH_SUBSCRIPT)", "isinstance(opcode, PUSH_MANY)", "isinstance(opcode, SMALL_INTEGER)"]
    ge = ctx.fa(f"{S}.Template.generate")
    v = ge.fi.params()[1]
    R.effect_table(ctx, "C15-T6/ENGINE", ge, kinds, [
        (f"data = {v}[opcode.name]", kinds[0], "PUSH_SINGLE takes the value stored under the opcode's name", 0),
        ("source.write_many(push_data(data))", kinds[0], "…and writes it as one minimal push", 0),
        (f"data = {v}[opcode.name]", kinds[1], "PUSH_INTEGER takes the value under the opcode's name", 1),
        ("source.write_many(push_data(data.to_bytes((data.bit_length() + 8) // 8, byteorder='little', signed=True)))", kinds[1],
         "…and pushes it little endian with a spare sign byte ((bit_length + 8) // 8 bytes), which the unsigned little-endian reader inverts for heights >= 0"),
        (f"data = {v}[opcode.name]", kinds[2], "PUSH_SUBSCRIPT takes the sub-script under the opcode's name", 2),
        ("source.write_many(push_data(data.source))", kinds[2], "…and pushes its source bytes"),
        ("source.write_many(push_data(data))", kinds[3], "PUSH_MANY pushes every element, each as one push", 1),
        (f"data = {v}[opcode.name]", kinds[4], "SMALL_INTEGER takes the value under the opcode's name", 3),
        ("source.write_many(push_small_integer(data))", kinds[4], "…and writes the small-integer opcode"),
        ("source.write_uint8(opcode)", " and ".join("not " + k for k in kinds), "any other template element is written as the literal opcode byte"),
        ("return source.get_bytes()", "", "the generated script is the stream's bytes"),
    ], "generate: ")
    lp = ge.stmts(ast.For)
    ok = len(lp) >= 1 and norm_text(lp[0].iter) == "self.opcodes" and dotted(lp[0].target) == "opcode" and \
        any(norm_text(f.iter) == f"{v}[opcode.name]" and dotted(f.target) == "data" for f in lp[1:]) and \
        [norm_text(x.value) for x in ge.stmts(ast.Assign) if any(dotted(t) == "source" for t in x.targets)] == ["BCDataStream()"]
    ctx.ob("C15-T6/ENGINE", ok, ge.site(), "generate: the template's opcodes are visited in order, into a fresh stream", func=ge.fi.qualname)
    pa = ctx.fa(f"{S}.Parser.parse")
    pv = ["self.token_index < len(self.tokens)", "self.opcode_index < len(self.opcodes)", "token.value == 0", "isinstance(opcode, PUSH_SINGLE)", "isinstance(token, DataToken)",
          "isinstance(opcode, (PUSH_SINGLE, PUSH_INTEGER, PUSH_SUBSCRIPT))", "isinstance(opcode, PUSH_MANY)", "isinstance(token, SmallIntegerToken)", "isinstance(opcode, SMALL_INTEGER)",
          "token.value == opcode"]
    inloop = "self.token_index < len(self.tokens) and self.opcode_index < len(self.opcodes)"
    R.effect_table(ctx, "C15-T6/ENGINE", pa, pv, [
        ("token = self.tokens[self.token_index]", inloop, "the current token …"),
        ("opcode = self.opcodes[self.opcode_index]", inloop, "… is matched against the current template element"),
        ("token = DataToken(b'')", "token.value == 0 and isinstance(opcode, PUSH_SINGLE)", "OP_0 where data is expected is the empty push"),
        ("self.push_single(opcode, token.value)", "isinstance(token, DataToken) and isinstance(opcode, (PUSH_SINGLE, PUSH_INTEGER, PUSH_SUBSCRIPT))", "a data token fills a single-push element"),
        ("self.consume_many_non_greedy()", "isinstance(token, DataToken) and not isinstance(opcode, (PUSH_SINGLE, PUSH_INTEGER, PUSH_SUBSCRIPT)) and isinstance(opcode, PUSH_MANY)",
         "…or starts a PUSH_MANY run"),
        ("self.values[opcode.name] = token.value", "not isinstance(token, DataToken) and isinstance(token, SmallIntegerToken) and isinstance(opcode, SMALL_INTEGER)",
         "a small-integer token fills a SMALL_INTEGER element"),
        ("return self", "not self.token_index < len(self.tokens) and not self.opcode_index < len(self.opcodes)", "success only when tokens and template are both exhausted"),
    ], "parse: ")
    R.refusal_table(ctx, "C15-T6/ENGINE", pa, [
        ("DataToken found but opcode was", "isinstance(token, DataToken) and not isinstance(opcode, (PUSH_SINGLE, PUSH_INTEGER, PUSH_SUBSCRIPT)) and not isinstance(opcode, PUSH_MANY)"),
        ("SmallIntegerToken found but opcode was", "not isinstance(token, DataToken) and isinstance(token, SmallIntegerToken) and not isinstance(opcode, SMALL_INTEGER)"),
        ("Token is", "not isinstance(token, DataToken) and not isinstance(token, SmallIntegerToken) and not token.value == opcode"),
        ("without all tokens being consumed", "self.token_index < len(self.tokens)"),
        ("without all opcodes being consumed", "not self.token_index < len(self.tokens) and self.opcode_index < len(self.opcodes)"),
    ], "parse", extra_terms=pv)
    wl = pa.stmts(ast.While)
    ok = len(wl) == 1 and [norm_text(x) for x in wl[0].body[-2:]] == ["self.token_index += 1", "self.opcode_index += 1"]
    ctx.ob("C15-T6/ENGINE", ok, pa.site(), "parse: both cursors advance at the end of every loop iteration, unconditionally", func=pa.fi.qualname, key="C15-T6/ENGINE|advance")
    ok = len(wl) == 1 and R.same_test(wl[0].test, inloop) and not wl[0].orelse
    ctx.ob("C15-T6/ENGINE", ok, pa.site(), "parse: the loop runs while both cursors are inside their lists", func=pa.fi.qualname)
    for x in pa.stmts(ast.AugAssign):
        ok = isinstance(x.op, ast.Add) and is_const(x.value, 1)
        ctx.ob("C15-T6/ENGINE", ok, pa.site(x), "parse: cursor step is +1", func=pa.fi.qualname)
    pi = ctx.fa(f"{S}.Parser.__init__")
    t = [norm_text(x) for x in pi.stmts(ast.Assign)]
    ok = "self.token_index = 0" in t and "self.opcode_index = 0" in t and "self.values = {}" in t and f"self.opcodes = {pi.fi.params()[1]}" in t and f"self.tokens = {pi.fi.params()[2]}" in t
    ctx.ob("C15-T6/ENGINE", ok, pi.site(), "parse: cursors start at 0 with no values", func=pi.fi.qualname)
    ps = ctx.fa(f"{S}.Parser.push_single")
    o, val = ps.fi.params()[1:3]
    k3 = [f"isinstance({o}, PUSH_SINGLE)", f"isinstance({o}, PUSH_INTEGER)", f"isinstance({o}, PUSH_SUBSCRIPT)"]
    R.effect_table(ctx, "C15-T6/ENGINE", ps, k3, [
        (f"self.values[{o}.name] = {val}", k3[0], "a PUSH_SINGLE value is stored as the pushed bytes"),
        (f"self.values[{o}.name] = int.from_bytes({val}, 'little')", f"not {k3[0]} and {k3[1]}", "a PUSH_INTEGER value is read little endian"),
        (f"self.values[{o}.name] = Script.from_source_with_template({val}, {o}.template)", f"not {k3[0]} and not {k3[1]} and {k3[2]}", "a PUSH_SUBSCRIPT value is parsed with the element's own template"),
    ], "parse: ")
    R.refusal_table(ctx, "C15-T6/ENGINE", ps, [("Not a push single or subscript", " and ".join("not " + k for k in k3))], "push_single")
    sp = ctx.fa(f"{S}.Script.parse")
    th = sp.fi.params()[1]
    R.effect_table(ctx, "C15-T6/ENGINE", sp, ["tokens", th, "template"], [
        (f"{th} = self.NO_SCRIPT", f"not tokens and not {th}", "an empty script without hint is the NO_SCRIPT template"),
        ("self._values = template.parse(tokens)", "template", "every candidate template is tried on the tokens"),
        ("self._template = template", "template", "the first template that parses is recorded"),
    ], "classification: ")
    for x in sp.stmts(ast.Assign):
        if norm_text(x) == "self._template = template":
            nx = R.next_stmt(x)
            ctx.ob("C15-T6/ENGINE", isinstance(nx, ast.Return) and nx.value is None, sp.site(x), "classification: the search stops at the first template that parses (later, more "
                   "general templates cannot override it)", func=sp.fi.qualname, key="C15-T6/ENGINE|first-match-wins")
    tk = ctx.fa(f"{S}.token_producer")
    src = tk.fi.params()[0]
    tkv = ["token is not None", "is_push_data_token(token)", "is_small_integer(token)"]
    R.effect_table(ctx, "C15-T2/TOKEN", tk, tkv, [
        (f"yield DataToken(read_data(token, {src}))", "token is not None and is_push_data_token(token)", "a push opcode byte yields the pushed data"),
        ("yield SmallIntegerToken(read_small_integer(token))", "token is not None and not is_push_data_token(token) and is_small_integer(token)", "a small-integer opcode yields its number"),
        ("yield Token(token)", "token is not None and not is_push_data_token(token) and not is_small_integer(token)", "any other byte yields the opcode itself"),
        (f"token = {src}.read_uint8()", "", "bytes are read one opcode at a time", 0),
        (f"token = {src}.read_uint8()", "token is not None", "…until the stream is exhausted", 1),
    ], "tokenizer: ")
    lp = sp.stmts(ast.For)
    ok = len(lp) == 1 and norm_text(lp[0].iter) == f"chain(({th},), self.templates)" and dotted(lp[0].target) == "template"
    ctx.ob("C15-T6/ENGINE", ok, sp.site(), "classification: the hint is tried first, then the class's templates in their declared order", func=sp.fi.qualname, key="C15-T6/ENGINE|order")
    hs = [h for t_ in sp.stmts(ast.Try) for h in t_.handlers]
    ok = len(hs) == 1 and norm_text(hs[0].type) == "ParseError" and isinstance(hs[0].body[-1], ast.Continue)
    ctx.ob("C15-T6/ENGINE", ok, sp.site(), "classification: only a ParseError moves on to the next template", func=sp.fi.qualname)
    rz = R.raise_kinds(sp)
    ok = len(rz) == 1 and rz[0][1] == "ValueError" and sp.must_precede(rz[0][0], lambda n: bool(lp) and n is lp[0].iter) is None
    ctx.ob("C15-T6/ENGINE", ok, sp.site(), "classification: a script that matches no template is refused (ValueError) after all were tried", func=sp.fi.qualname)
    tp = ctx.fa(f"{S}.Template.parse")
    r = R.single_return_value(tp)
    ok = r is not None and norm_text(r.value) == f"Parser(self.opcodes, {tp.fi.params()[1]}).parse().values if self.opcodes else {{}}"
    ctx.ob("C15-T6/ENGINE", ok, tp.site(), "a template parses tokens with its own opcodes", func=tp.fi.qualname)
    # database classification of an output
    tr = ctx.fa("lbry.wallet.database.Database.txo_to_row")
    tv = ["txo.script.is_claim_name", "txo.script.is_update_claim", "txo.can_decode_claim", "claim.is_repost", "claim.is_signed", "claim.is_stream", "txo.script.is_support_claim", "support",
          "support.is_signed", "txo.purchase is not None", "txo.script.is_claim_involved", "txo.is_claim", "txo.is_support"]
    R.effect_table(ctx, "C15-T5/ROW", tr, tv, [
        ("row['txo_type'] = TXO_TYPES['purchase']", "txo.purchase is not None", "a purchase output is typed purchase"),
        ("row['claim_id'] = txo.purchased_claim_id", "txo.purchase is not None", "…with the purchased claim id"),
        ("row['claim_id'] = txo.claim_id", "txo.script.is_claim_involved", "claim-involved outputs carry their claim id"),
        ("row['claim_name'] = txo.claim_name", "txo.script.is_claim_involved", "…and name"),
        ("return row", "", "the row is returned"),
    ], "row: ")
