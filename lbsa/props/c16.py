"""C16 — claim metadata and LBRY URLs encode and decode without loss."""
import ast
import re

from .. import AnalysisError
from ..astutil import dotted, call_name, unparse, norm_text, walk_local_body, kwarg, is_const
from ..consteval import Evaluator, Unknown
from .. import regexast as rx
from .. import rules as R
from .. import terms

EXPLANATION = (
    "Envelope-layout, accessor-symmetry and URL-grammar analysis. Envelope: Signable.to_bytes writes version byte "
    "0 + message or 1 + 20-byte channel hash + 64-byte signature + message, from_bytes slices [1:] or "
    "[1:21] [21:85] [85:] — contiguous, exhaustive, in the writer's order — and refuses exactly the other first "
    "bytes (no further condition); Purchase writes and tests its start byte. Accessor symmetry: for every "
    "@property with a setter in schema/attrs.py, claim.py, base.py, support.py the getter reads the message field "
    "the setter writes and applies the inverse transformation chain in reverse order (hex, byte reversal, Base58, "
    "enum name/value, country code, scaling), resolving accessors defined through other accessors; three "
    "deliberate exceptions are listed with their reason. Fee.update gives an explicitly passed currency "
    "precedence over the stored one. URL grammar, read from the regex AST after folding the pattern builder: "
    "separators / : # $ and the channel marker @ are excluded from names, claim ids are [0-9a-f]{1,40}, amount "
    "orders [1-9][0-9]*, alternatives are ordered longest first, the pattern is anchored at both ends of the "
    "string (\\Z, not $), and the printers emit exactly the fields the parser fills."
)
EXACTNESS = "Second pass (DESIGN.md §10, exactness / completeness halves) — URL printer and parser assembly, envelope readers / writers return the object / bytes on every path, legacy dispatch by first byte, `Fee.update` validator; full forbidden character set of names, legacy v1 unsigned-payload order, TagList normalisation."
TECHNIQUE = "static analysis: reader/writer slice-layout agreement, getter/setter inverse-chain comparison over a table of inverse pairs, regex-AST grammar check; exact fact-set comparison of the tests dominating each effect and refusal (effect / refusal tables), fall-through path queries"
NOT_DECIDED = "equality of an object with its re-parse, protobuf field semantics, field mapping of the two legacy decoders, 'prints back to the same URL' beyond the canonical form"
ASSUMPTIONS = ["protobuf message fields store what is assigned to them"]

MODS = ("lbry.schema.attrs", "lbry.schema.claim", "lbry.schema.base", "lbry.schema.support")

INVERSE = {"hexlify": "unhexlify", "unhexlify": "hexlify", ".encode": ".decode", ".decode": ".encode", "rev": "rev",
           "Base58.encode": "Base58.decode", "Base58.decode": "Base58.encode",
           "country_int_to_str": "country_str_to_int", "country_str_to_int": "country_int_to_str"}
NEUTRAL = {"Decimal", "int", "str", "bool", "list", "tuple", "bytes"}

# deliberate asymmetries, each with its reason (DESIGN.md §5 C16-D2)
EXCEPTIONS = {
    ("Fee", "usd"): "setter quantises to whole pennies with ROUND_UP (lossy by design)",
    ("Language", "langtag"): "composite value parsed into language/script/region, covered by those three accessors",
    ("Channel", "public_key_bytes"): "getter additionally normalises legacy DER keys to the compressed form",
    ("Channel", "public_key"): "hex view of public_key_bytes, whose getter normalises legacy DER keys",
}


def chain_of(expr, is_hole):
    """transformation chain (innermost first) applied to the hole inside expr; None if the hole is absent or the
    shape is not a pure chain"""
    ops = []
    e = expr
    while True:
        if is_hole(e):
            ops.reverse()
            return ops
        if isinstance(e, ast.IfExp):
            # `X if cond else None`
            if is_const(e.orelse, None):
                e = e.body
                continue
            return None
        if isinstance(e, ast.Call):
            f = e.func
            if isinstance(f, ast.Name) and len(e.args) >= 1:
                if f.id in NEUTRAL:
                    e = e.args[0]
                    continue
                ops.append(f.id)
                e = e.args[0]
                continue
            if isinstance(f, ast.Attribute):
                d = dotted(f)
                # Enum.Name(x) / Enum.Value(x) / Base58.encode(x) : function style with the hole as argument
                if d and len(e.args) == 1 and (contains(e.args[0], is_hole)):
                    if f.attr in ("Name", "Value"):
                        ops.append(f"{f.attr}:{dotted(f.value)}")
                    else:
                        ops.append(d)
                    e = e.args[0]
                    continue
                # method on the value: x.decode(), x.encode(), x.quantize(...)
                if contains(f.value, is_hole):
                    ops.append("." + f.attr + (f"({', '.join(unparse(a) for a in e.args)})" if e.args and f.attr not in ("encode", "decode") else ""))
                    e = f.value
                    continue
            return None
        if isinstance(e, ast.Subscript):
            if isinstance(e.slice, ast.Slice) and e.slice.lower is None and e.slice.upper is None and unparse(e.slice.step) == "-1":
                ops.append("rev")
                e = e.value
                continue
            return None
        if isinstance(e, ast.BinOp) and isinstance(e.op, (ast.Mult, ast.Div)):
            if contains(e.left, is_hole):
                ops.append(("mul:" if isinstance(e.op, ast.Mult) else "div:") + unparse(e.right))
                e = e.left
                continue
            return None
        return None


def contains(e, is_hole):
    return any(is_hole(n) for n in ast.walk(e))


def normalise(chain):
    out = []
    for op in chain:
        if op == ".decode" and out and out[-1] == "hexlify":
            continue                      # hexlify(x).decode(): one "to hex string" step
        out.append(op)
    res = []
    i = 0
    while i < len(out):
        if out[i] == ".encode" and i + 1 < len(out) and out[i + 1] == "unhexlify":
            i += 1
            continue                      # unhexlify(s.encode()): one "from hex string" step
        res.append(out[i])
        i += 1
    return res


def invert(chain):
    out = []
    for op in reversed(chain):
        if op in INVERSE:
            out.append(INVERSE[op])
        elif op.startswith("Name:"):
            out.append("Value:" + op[5:])
        elif op.startswith("Value:"):
            out.append("Name:" + op[6:])
        elif op.startswith("mul:"):
            out.append("div:" + op[4:])
        elif op.startswith("div:"):
            out.append("mul:" + op[4:])
        else:
            out.append("?" + op)
    return out


def is_message_field(d):
    parts = d.split(".")
    return len(parts) >= 3 and parts[0] == "self" and parts[-2] == "message"


def is_field(n):
    """an attribute read/written by an accessor: self.<…>.message.F, or self.X (another accessor / slot) — class
    constants (upper case) and the message object itself are not fields"""
    if not isinstance(n, ast.Attribute):
        return False
    d = dotted(n)
    if d is None or not d.startswith("self."):
        return False
    if is_message_field(d):
        return True
    parts = d.split(".")
    return len(parts) == 2 and parts[1] != "message" and not parts[1].isupper() and parts[1] != "claim"


def accessor_pairs(prog):
    """-> list of dicts(cls, name, getter, setter, status, detail)"""
    classes = [c for c in prog.classes.values() if c.module.name in MODS]
    # first pass: raw descriptions
    desc = {}
    for c in classes:
        for name, g in c.methods.items():
            if "@" in name or "property" not in g.decorators():
                continue
            s = c.methods.get(f"{name}@setter")
            if s is None:
                continue
            desc[(c.qualname, name)] = (c, g, s)

    def lookup(cls, name):
        for k in prog.mro(cls):
            if (k.qualname, name) in desc:
                return desc[(k.qualname, name)]
        return None

    def getter_info(cls, g, depth=0):
        """(field, chain) or (None, reason)"""
        rets = [n for n in walk_local_body(g.node) if isinstance(n, ast.Return) and n.value is not None]
        rets = [r for r in rets if not is_const(r.value, None)]
        if len(rets) != 1:
            return None, f"{len(rets)} value returns"
        v = rets[0].value
        if isinstance(v, ast.Tuple):
            parts = [getter_expr(cls, e, depth) for e in v.elts]
            if any(p[0] is None for p in parts):
                return None, "tuple element not a pure chain"
            return tuple(p[0] for p in parts), [p[1] for p in parts]
        return getter_expr(cls, v, depth)

    def getter_expr(cls, v, depth):
        ch = chain_of(v, is_field)
        if ch is None:
            return None, f"getter is not a transformation chain over one field: `{unparse(v)[:70]}`"
        h = [n for n in ast.walk(v) if is_field(n)]
        d = dotted(h[0])
        if is_message_field(d):
            return d[5:], ch
        other = lookup(cls, d[5:])
        if other is None:
            return d[5:], ch               # a plain attribute of the object (slot), not an accessor
        if depth > 4:
            return None, "accessor delegation too deep"
        f, ch0 = getter_info(other[0], other[1], depth + 1)
        if f is None:
            return None, ch0
        return f, list(ch0) + ch

    def setter_info(cls, s, depth=0):
        """([(field, chain)], consts) or (None, reason)"""
        param = [p for p in s.params() if p != "self"][0]
        stores, consts = [], []
        prefix = []
        for n in walk_local_body(s.node):
            if not isinstance(n, ast.Assign):
                continue
            if len(n.targets) == 1 and isinstance(n.targets[0], ast.Name) and n.targets[0].id == param:
                pc = chain_of(n.value, lambda q: isinstance(q, ast.Name) and q.id == param)
                if pc is None:
                    return None, f"setter rewrites its argument: `{unparse(n)[:70]}`"
                prefix = prefix + pc
                continue
            for t in n.targets:
                tg = t.elts if isinstance(t, ast.Tuple) else [t]
                vals = n.value.elts if isinstance(t, ast.Tuple) and isinstance(n.value, ast.Tuple) and len(n.value.elts) == len(tg) else None
                for i, x in enumerate(tg):
                    d = dotted(x)
                    if not d or not d.startswith("self."):
                        continue
                    if isinstance(t, ast.Tuple) and vals is None:
                        # self.a, self.b = param  : element i of the param
                        if dotted(n.value) == param:
                            stores.append((d, [f"item:{i}"]))
                        continue
                    v = vals[i] if vals is not None else n.value
                    if not contains(v, lambda q: isinstance(q, ast.Name) and q.id == param):
                        consts.append((d, unparse(v)))
                        continue
                    ch = chain_of(v, lambda q: isinstance(q, ast.Name) and q.id == param)
                    if ch is None:
                        return None, f"setter value is not a transformation chain over its argument: `{unparse(v)[:70]}`"
                    stores.append((d, prefix + ch))
        out = []
        for d, ch in stores:
            if is_message_field(d):
                out.append((d[5:], ch))
            else:
                other = lookup(cls, d[5:])
                if other is None:
                    out.append((d[5:], ch))      # plain attribute
                    continue
                if depth > 4:
                    return None, "accessor delegation too deep"
                sub, c2 = setter_info(other[0], other[2], depth + 1)
                if sub is None:
                    return None, c2
                for f, ch2 in sub:
                    out.append((f, ch + ch2))
                consts.extend(c2)
        return out, consts

    res = []
    for (cq, name), (c, g, s) in sorted(desc.items()):
        rec = {"cls": c.name, "name": name, "getter": g, "setter": s}
        gf, gch = getter_info(c, g)
        st, consts = setter_info(c, s)
        if gf is None:
            rec.update(status="unrecognised", detail=str(gch))
        elif st is None:
            rec.update(status="unrecognised", detail=str(consts))
        elif isinstance(gf, tuple):
            # tuple accessor: element i of the getter must pair with the store of item i
            ok = True
            detail = ""
            for i, f in enumerate(gf):
                hit = [x for x in st if x[0] == f]
                if len(hit) != 1 or normalise([o for o in hit[0][1] if not o.startswith("item:")]) != normalise(invert(normalise(gch[i]))) or \
                        f"item:{i}" not in hit[0][1]:
                    ok = False
                    detail = f"element {i}: getter reads `{f}`, setter stores {st}"
            rec.update(status="symmetric" if ok else "MISMATCH", detail=detail)
        else:
            hit = [x for x in st if x[0] == gf]
            if len(st) != 1 or not hit:
                rec.update(status="MISMATCH", detail=f"getter reads {gf}, setter writes {[x[0] for x in st]}")
            else:
                want = normalise(invert(normalise(hit[0][1])))
                got = normalise(gch)
                if want == got:
                    rec.update(status="symmetric", detail=f"{gf}: set {normalise(hit[0][1]) or ['identity']} / get {got or ['identity']}")
                else:
                    rec.update(status="MISMATCH", detail=f"{gf}: setter applies {normalise(hit[0][1]) or ['identity']}, so the getter must apply {want or ['identity']} "
                                                         f"but applies {got or ['identity']}")
        res.append(rec)
    return res


def check(ctx):
    prog = ctx.prog
    ev = Evaluator(prog)
    envelope(ctx, prog, ev)
    accessors(ctx, prog)
    url(ctx, prog, ev)


def envelope(ctx, prog, ev):
    tb = ctx.fa("lbry.schema.base.Signable.to_bytes")
    fb = ctx.fa("lbry.schema.base.Signable.from_bytes")
    q = fb.fi.qualname
    t = unparse(tb.node)
    signed = [norm_text(s) for s in tb.stmts(ast.If)[0].body] if tb.stmts(ast.If) else []
    ok = signed == ["pieces.append(1)", "pieces.extend(self.signing_channel_hash)", "pieces.extend(self.signature)"] and \
        [norm_text(s) for s in tb.stmts(ast.If)[0].orelse] == ["pieces.append(0)"] and "pieces.extend(self.to_message_bytes())" in t and \
        unparse(tb.stmts(ast.If)[0].test) == "self.is_signed"
    ctx.ob("C16-D1/ENVELOPE", ok, tb.site(), "writer: 1 ‖ channel hash ‖ signature ‖ message when signed, else 0 ‖ message", func=tb.fi.qualname)
    d = fb.fi.params()[1]
    stores = {}
    for s in fb.stmts(ast.Assign):
        for tg in s.targets:
            stores[unparse(tg)] = (unparse(s.value), s)
    parses = [c for c in fb.calls(name="ParseFromString")]
    un = [c for c in parses if fb.guarded(c, f"{d}[0] == 0")[0]]
    sg = [c for c in parses if fb.guarded(c, f"not {d}[0] == 0 and {d}[0] == 1")[0]]
    ok0 = len(un) == 1 and unparse(un[0].args[0]) == f"{d}[1:]"
    ctx.ob("C16-D1/ENVELOPE", ok0, fb.site(), "reader, version 0: the message is everything after the version byte", func=q, key=f"C16-D1/ENVELOPE|{q}|v0")
    ok1 = len(sg) == 1 and unparse(sg[0].args[0]) == f"{d}[85:]" and stores.get("signable.signing_channel_hash", ("",))[0] == f"{d}[1:21]" and \
        stores.get("signable.signature", ("",))[0] == f"{d}[21:85]"
    ctx.ob("C16-D1/ENVELOPE", ok1, fb.site(), "reader, version 1: [1:21] channel hash, [21:85] signature, [85:] message — contiguous from 1, exhaustive, writer's order "
           "(20 + 64 bytes)", func=q, key=f"C16-D1/ENVELOPE|{q}|v1")
    rz = R.raise_kinds(fb)
    want = set(terms.parse_guard(f"not {d}[0] == 0 and not {d}[0] == 1"))
    ok = len(rz) == 1 and set(R.atomic_facts_at(fb, rz[0][0])[0]) == want
    ctx.ob("C16-D1/ENVELOPE", ok, fb.site(rz[0][0]) if rz else fb.site(), "the only refusal is an unknown version byte (no length or content condition: a signed object with an "
           "empty message body is 85 bytes and must parse)", detail="" if ok else f"{len(rz)} raise statement(s): " +
           "; ".join(R.fmt_missing(sorted(R.atomic_facts_at(fb, x)[0])) for x, k in rz), func=q, key=f"C16-D1/ENVELOPE|{q}|refusals")
    r = R.single_return_value(fb)
    ctx.ob("C16-D1/ENVELOPE", r is not None and dotted(r.value) == "signable", fb.site(), "the parsed object is returned", func=q)
    isg = ctx.fa("lbry.schema.base.Signable.is_signed")
    r = R.single_return_value(isg)
    ctx.ob("C16-D1/ENVELOPE", r is not None and unparse(r.value) == "self.signature is not None", isg.site(), "signed ⇔ a signature is present", func=isg.fi.qualname)
    # purchase
    pt, pf, ph = (ctx.fa(f"lbry.schema.purchase.Purchase.{n}") for n in ("to_bytes", "from_bytes", "has_start_byte"))
    ok = "pieces.append(self.START_BYTE)" in unparse(pt.node) and "pieces.extend(self.to_message_bytes())" in unparse(pt.node)
    r = R.single_return_value(ph)
    ok = ok and r is not None and unparse(r.value) == f"{ph.fi.params()[1]} and {ph.fi.params()[1]}[0] == cls.START_BYTE"
    pc = [c for c in pf.calls(name="ParseFromString")]
    ok = ok and len(pc) == 1 and unparse(pc[0].args[0]) == f"{pf.fi.params()[1]}[1:]" and pf.guarded(pc[0], f"purchase.has_start_byte({pf.fi.params()[1]})")[0]
    ctx.ob("C16-D1/ENVELOPE", ok, pt.site(), "Purchase: start byte written, tested, and the message parsed from [1:]", func=pt.fi.qualname)
    cf = ctx.fa("lbry.schema.claim.Claim.from_bytes")
    t = unparse(cf.node)
    ok = "data[0] == ord('{')" in t and "data[0] not in (0, 1)" in t
    ctx.ob("C16-D1/ENVELOPE", ok, cf.site(), "Claim.from_bytes dispatches the two legacy encodings on the first byte ('{' JSON, not 0/1 old protobuf)", func=cf.fi.qualname)


def accessors(ctx, prog):
    res = accessor_pairs(prog)
    ctx.floor("C16-D2/SYM", "getter/setter pairs in the schema modules", len(res), 45)
    for r in res:
        g = r["getter"]
        key = (r["cls"], r["name"])
        site = g.site()
        if r["status"] == "symmetric":
            ctx.ob("C16-D2/SYM", True, site, f"{r['cls']}.{r['name']}: getter inverts setter ({r['detail']})", func=g.qualname, key=f"C16-D2/SYM|{r['cls']}.{r['name']}")
        elif key in EXCEPTIONS:
            ctx.ob("C16-D2/SYM", True, site, f"{r['cls']}.{r['name']}: listed exception — {EXCEPTIONS[key]}", func=g.qualname, key=f"C16-D2/SYM|{r['cls']}.{r['name']}")
        else:
            ctx.ob("C16-D2/SYM", False, site, f"{r['cls']}.{r['name']}: what is read back is what was set", detail=r["detail"], func=g.qualname,
                   key=f"C16-D2/SYM|{r['cls']}.{r['name']}")
    for key in EXCEPTIONS:
        if not any((r["cls"], r["name"]) == key for r in res):
            ctx.ob("C16-D2/SYM", False, "lbry/schema/attrs.py:1", f"mechanism present: accessor pair {key[0]}.{key[1]} (listed exception)")
    # Fee.update: an explicitly passed currency wins over the stored one
    fu = ctx.fa("lbry.schema.attrs.Fee.update")
    cur = [s for s in fu.stmts(ast.Assign) if any(dotted(t) == "currency" for t in s.targets)]
    ok = False
    if len(cur) == 1:
        v = cur[0].value
        inner = v.func.value if isinstance(v, ast.Call) and isinstance(v.func, ast.Attribute) and v.func.attr == "lower" else v
        ops = [unparse(x) for x in inner.values] if isinstance(inner, ast.BoolOp) and isinstance(inner.op, ast.Or) else []
        ok = ops[:2] == ["currency", "self.currency"]
    ctx.ob("C16-D2/DEP", ok, fu.site(), "Fee.update: the currency argument takes precedence over the currency already stored", detail="" if ok else
           (norm_text(cur[0]) if cur else ""), func=fu.fi.qualname, key="C16-D2/DEP|Fee.update|currency-precedence")
    st = [c for c in fu.calls(name="setattr")]
    ok = len(st) == 1 and [unparse(a) for a in st[0].args] == ["self", "currency", "Decimal(amount)"]
    ctx.ob("C16-D2/DEP", ok, fu.site(), "and the amount is stored through the accessor of that currency", func=fu.fi.qualname)


def url(ctx, prog, ev):
    mod = prog.module("lbry.schema.url")
    cr = prog.func("lbry.schema.url._create_url_regex")
    pat = fold_url_regex(cr)
    p = rx.parse(pat)
    import re._constants as C
    items = list(p)
    ok_s = rx.starts_anchored(p)
    ok_e, why = rx.ends_anchored_whole_string(p)
    up = ctx.fa("lbry.schema.url.URL.parse")
    api = [call_name(c) for c in up.calls() if dotted(c.func) in ("re.match", "re.fullmatch", "re.search")]
    whole = api == ["fullmatch"] or (api == ["match"] and ok_e) or (api == ["search"] and ok_s and ok_e)
    ctx.ob("C16-D3/REGEX", whole, cr.site(), "the URL pattern is matched against the whole string (end anchor \\Z; `$` would accept a trailing newline)",
           detail="" if whole else f"re.{api} with end anchor {why}", func=cr.qualname, key="C16-D3/REGEX|anchored")
    # name class
    classes = []

    def walk(seq):
        for op, av in seq:
            if op is C.IN:
                classes.append(av)
            elif op is C.SUBPATTERN:
                walk(av[3])
            elif op in (C.MAX_REPEAT, C.MIN_REPEAT):
                walk(av[2])
            elif op is C.BRANCH:
                for b in av[1]:
                    walk(b)
    walk(items)
    name_classes = [c for c in classes if rx.class_members(c)[0]]
    ctx.ob("C16-D3/REGEX", len(name_classes) >= 4, cr.site(), "each of the four name positions uses a negated (forbidden characters) class", detail=str(len(name_classes)), func=cr.qualname)
    # the grammar's complete forbidden set (spec.lbry.com: = & # : $ @ % ? ; " / \\ < > { } | ^ ~ ` [ ], controls and space, surrogates, U+FFFE/U+FFFF)
    for ch in ("/", ":", "#", "$", "@", "\n", " ", "\x00", "=", "&", "%", "?", ";", '"', "\\", "<", ">", "{", "}", "|", "^", "~", "`", "[", "]", "\x1f", "\t",
               "\ud800", "\udfff", "\ufffe", "\uffff"):
        ok = bool(name_classes) and all(rx.in_class(c, ord(ch)) is False for c in name_classes)
        ctx.ob("C16-D3/REGEX", ok, cr.site(), f"a name cannot contain {ch!r} (separators, channel marker and controls are forbidden inside names)", func=cr.qualname,
               key=f"C16-D3/REGEX|forbidden|{ord(ch)}")
    src = pat
    ok = src.count("[0-9a-f]{1,40}") == 4 and src.count("[1-9][0-9]*") == 4
    ctx.ob("C16-D3/REGEX", ok, cr.site(), "claim ids are 1..40 lowercase hex digits, amount orders positive decimals without leading zero", func=cr.qualname)
    # alternatives longest first
    order = [m for m in re.findall(r"\(\?P<(\w+)_name>", src)]
    ok = order == ["channel_with_stream", "stream_in_channel", "channel", "stream"]
    ctx.ob("C16-D3/REGEX", ok, cr.site(), "alternatives are tried longest first: channel/stream, channel, stream", detail=str(order), func=cr.qualname)
    ok = src.count("@") >= 2 and "(?P<channel_with_stream_name>@" in src and "(?P<channel_name>@" in src and "(?P<stream_name>@" not in src
    ctx.ob("C16-D3/REGEX", ok, cr.site(), "channel names (and only they) carry the @ marker", func=cr.qualname)
    # printers
    ps = ctx.fa("lbry.schema.url.PathSegment.__str__")
    t = unparse(ps.node)
    ok = "f'{self.name}:{self.claim_id}'" in t and "f'{self.name}${self.amount_order}'" in t and "return self.name" in t
    ctx.ob("C16-D3/DEP", ok, ps.site(), "a segment prints name, then :claim_id or $amount_order — the fields the parser fills", func=ps.fi.qualname)
    us = ctx.fa("lbry.schema.url.URL.__str__")
    ok = "lbry://" in unparse(us.node) and "'/'.join((str(p) for p in self.parts))" in unparse(us.node)
    ctx.ob("C16-D3/DEP", ok, us.site(), "a URL prints lbry:// and its segments joined by '/'", func=us.fi.qualname)
    t = unparse(up.node)
    ok = "PathSegment(parts[f'{segment}_name'], parts[f'{segment}_claim_id'], parts[f'{segment}_amount_order'])" in t and \
        "segments['channel'] = segments['channel_with_stream']" in t and "segments['stream'] = segments['stream_in_channel']" in t and \
        "return cls(segments.get('stream', None), segments.get('channel', None))" in t
    ctx.ob("C16-D3/DEP", ok, up.site(), "parse fills name / claim_id / amount_order of each segment from the groups of the same name", func=up.fi.qualname)
    rz = R.raise_kinds(up)
    ok = any(up.guarded(x, "match is None")[0] and k == "ValueError" for x, k in rz)
    ctx.ob("C16-D3/GATE", ok, up.site(), "a string the grammar does not match raises ValueError", func=up.fi.qualname)


def fold_url_regex(fi):
    """evaluate _create_url_regex: its local helpers are pure string builders"""
    env = {}
    funcs = {}
    mod_assigns = {}
    for st in fi.module.tree.body:          # helpers and constants may live at module level as well
        if isinstance(st, ast.FunctionDef):
            funcs[st.name] = st
        elif isinstance(st, ast.Assign) and len(st.targets) == 1 and isinstance(st.targets[0], ast.Name):
            mod_assigns[st.targets[0].id] = st.value
    for st in fi.node.body:
        if isinstance(st, ast.FunctionDef):
            funcs[st.name] = st

    def ev(e, loc):
        if isinstance(e, ast.Constant):
            return e.value
        if isinstance(e, ast.Name):
            if e.id in loc:
                return loc[e.id]
            if e.id in env:
                return env[e.id]
            if e.id in mod_assigns:
                return ev(mod_assigns[e.id], {})
            raise AnalysisError(f"C16: cannot fold name {e.id} in URL regex")
        if isinstance(e, ast.BinOp) and isinstance(e.op, ast.Add):
            return ev(e.left, loc) + ev(e.right, loc)
        if isinstance(e, ast.JoinedStr):
            return "".join(str(ev(v.value, loc)) if isinstance(v, ast.FormattedValue) else v.value for v in e.values)
        if isinstance(e, ast.Call):
            if isinstance(e.func, ast.Attribute) and e.func.attr == "join" and isinstance(e.func.value, ast.Constant):
                arg = e.args[0]
                seq = loc.get(arg.id) if isinstance(arg, ast.Name) else [ev(x, loc) for x in arg.elts]
                return e.func.value.value.join(seq)
            if isinstance(e.func, ast.Name) and e.func.id in funcs:
                f = funcs[e.func.id]
                params = [a.arg for a in f.args.args]
                defaults = [None] * (len(params) - len(f.args.defaults)) + list(f.args.defaults)
                l2 = {}
                args = [ev(a, loc) for a in e.args]
                for i, p in enumerate(params):
                    if i < len(args):
                        l2[p] = args[i]
                    elif defaults[i] is not None:
                        l2[p] = ev(defaults[i], {})
                if f.args.vararg:
                    l2[f.args.vararg.arg] = args[len(params):]
                    for i, p in enumerate(params):
                        if i >= len(args) and defaults[i] is None:
                            raise AnalysisError("C16: URL regex helper arity")
                for kw in e.keywords:
                    l2[kw.arg] = ev(kw.value, loc)
                for s in f.body:
                    if isinstance(s, ast.Return):
                        return ev(s.value, l2)
                raise AnalysisError("C16: URL regex helper without return")
        raise AnalysisError(f"C16: cannot fold `{unparse(e)[:60]}` in URL regex")

    for st in fi.node.body:
        if isinstance(st, ast.Assign) and isinstance(st.targets[0], ast.Name):
            env[st.targets[0].id] = ev(st.value, {})
        elif isinstance(st, ast.Return):
            return ev(st.value, {})
    raise AnalysisError("C16: _create_url_regex has no return")


_base_check_c16 = check


def check(ctx):            # noqa: F811  (extends the rules above)
    import ast
    from .. import rules as R
    _base_check_c16(ctx)
    printers(ctx, ctx.prog)
    # a claim's type is a protobuf oneof: it is recorded on the wire only once the sub-message is "set in parent".  A claim whose type-level fields are all
    # empty (a collection with 0 claims, a stream with only a title) keeps its type through to_bytes/from_bytes only because get_message marks it
    gm = ctx.fa("lbry.schema.claim.Claim.get_message")
    tn = gm.fi.params()[1]
    sp = gm.calls(name="SetInParent")
    ctx.floor("C16-D8/TYPE", "Claim.get_message marks the chosen type on an untyped claim", len(sp), 1, site=gm.site(), func=gm.fi.qualname)
    for c in sp:
        R.exact_gate(ctx, "C16-D8/TYPE", gm, c, "self.claim_type is None", "an untyped claim takes the requested type the first time it is viewed as one (SetInParent)",
                     key="C16-D8/TYPE|get_message|set-in-parent")
        ok = gm.expanded_text(c.func.value, keep=(tn,)) == f"getattr(self.message, {tn})"
        ctx.ob("C16-D8/TYPE", ok, gm.site(c), "…on the sub-message of the requested type", func=gm.fi.qualname, key="C16-D8/TYPE|get_message|which")
    for x in gm.stmts(ast.Raise):
        R.exact_gate(ctx, "C16-D8/TYPE", gm, x, f"self.claim_type != {tn}", "a claim of another type is refused", key="C16-D8/TYPE|get_message|refuse")
    for x in gm.stmts(ast.Return):
        ok = gm.expanded_text(x.value, keep=(tn,)) == f"getattr(self.message, {tn})"
        ctx.ob("C16-D8/TYPE", ok, gm.site(x), "the view returned is the sub-message of the requested type", func=gm.fi.qualname, key="C16-D8/TYPE|get_message|return")
    # region codes: the writer turns the 3-character UN M49 codes into enum names by prefixing 'R' ('001' -> 'R001'); the reader must strip that prefix from
    # exactly those names — four characters — and from nothing else (RE, RO, RS, RU, RW are countries)
    from .. import terms
    wr = ctx.fa("lbry.schema.attrs.country_str_to_int")
    wp = wr.fi.params()[0]
    adds = [a for a in wr.stmts(ast.Assign) if isinstance(a.value, ast.BinOp) and isinstance(a.value.op, ast.Add) and is_const(a.value.left, "R") and dotted(a.value.right) == wp]
    ctx.floor("C16-D10/REGION", "the writer's 'R' prefix", len(adds), 1, site=wr.site(), func=wr.fi.qualname)
    for a in adds:
        R.exact_gate(ctx, "C16-D10/REGION", wr, a, f"len({wp}) == 3", "the writer prefixes 'R' exactly to the 3-character codes", key="C16-D10/REGION|writer")
    rd = ctx.fa("lbry.schema.attrs.country_int_to_str")
    strips = [x for x in rd.local_nodes(ast.Subscript) if isinstance(x.slice, ast.Slice) and is_const(x.slice.lower, 1) and x.slice.upper is None]
    ctx.floor("C16-D10/REGION", "the reader's prefix strip", len(strips), 1, site=rd.site(), func=rd.fi.qualname)
    for x in strips:
        nm = unparse(x.value)
        ife = next((n for n in rd.local_nodes(ast.IfExp) if n.body is x), None)
        if ife is not None:
            have = set(terms.conj(ife.test))
        else:
            st = R.stmt_of(x)
            have = None
            for g in (f"len({nm}) == 4 and {nm}.startswith('R')",):
                have = set(terms.parse_guard(g)) if rd.guarded(st, g)[0] else set()
        need = set(terms.parse_guard(f"len({nm}) == 4 and {nm}.startswith('R')"))
        ok = need <= have
        ctx.ob("C16-D10/REGION", ok, rd.site(x), "the reader strips the prefix only from 4-character names that start with 'R' (what the writer produced)", func=rd.fi.qualname,
               detail="" if ok else f"strip condition lacks {sorted(t for t, _p in need - have)}: two-letter countries starting with R lose their first letter",
               key="C16-D10/REGION|reader")
    # "every field reads back as written" includes Fee.address: stored as Base58-decoded bytes, read back by Base58-encoding them — C06's rule instances
    R.share(ctx, "C06", {"C06-D3": "C16-D9"})


def printers(ctx, prog):
    """URL printer / parser assembly and the envelope readers' dispatch: each branch under exactly its own test, every path returns the object"""
    import ast
    from ..astutil import norm_text, dotted, is_const
    from .. import rules as R
    U = "lbry.schema.url"
    ps = ctx.fa(f"{U}.PathSegment.__str__")
    R.effect_table(ctx, "C16-D4/PRINT", ps, ["self.claim_id is not None", "self.amount_order is not None"], [
        ("return f'{self.name}:{self.claim_id}'", "self.claim_id is not None", "a segment with claim id prints name:claim_id"),
        ("return f'{self.name}${self.amount_order}'", "self.claim_id is None and self.amount_order is not None", "a segment with amount order prints name$order"),
        ("return self.name", "self.claim_id is None and self.amount_order is None", "a bare segment prints its name"),
    ], "URL printer: ")
    up = ctx.fa(f"{U}.URL.parts")
    R.effect_table(ctx, "C16-D4/PRINT", up, ["self.has_stream_in_channel", "self.has_channel"], [
        ("return (self.channel, self.stream)", "self.has_stream_in_channel", "channel/stream URLs print channel first, then stream"),
        ("return (self.channel,)", "not self.has_stream_in_channel and self.has_channel", "channel URLs print the channel"),
        ("return (self.stream,)", "not self.has_stream_in_channel and not self.has_channel", "stream URLs print the stream"),
    ], "URL printer: ")
    us = ctx.fa(f"{U}.URL.__str__")
    r = R.single_return_value(us)
    ok = r is not None and norm_text(r.value) == norm_text(ast.parse("f\"lbry://{'/'.join(str(p) for p in self.parts)}\"", mode="eval").body)
    ctx.ob("C16-D4/PRINT", ok, us.site(), "URL printer: lbry:// followed by the parts joined with '/'", detail="" if ok else norm_text(r.value) if r else "", func=us.fi.qualname)
    for nm, want in (("has_channel", "self.channel is not None"), ("has_stream", "self.stream is not None"), ("has_stream_in_channel", "self.has_channel and self.has_stream")):
        f = ctx.fa(f"{U}.URL.{nm}")
        r = R.single_return_value(f)
        ctx.ob("C16-D4/PRINT", r is not None and R.same_test(r.value, want), f.site(), f"URL.{nm} == {want}", func=f.fi.qualname)
    pa = ctx.fa(f"{U}.URL.parse")
    u = pa.fi.params()[1]
    R.effect_table(ctx, "C16-D4/PARSE", pa, ["match is None", "parts[f'{segment}_name'] is not None", "'channel_with_stream' in segments"], [
        (f"match = re.match(URL_REGEX, {u})", "", "the URL is matched against the grammar from its first character"),
        ("segments[segment] = PathSegment(parts[f'{segment}_name'], parts[f'{segment}_claim_id'], parts[f'{segment}_amount_order'])", "parts[f'{segment}_name'] is not None",
         "every named group that matched becomes a segment with its own name, claim id and amount order"),
        ("segments['channel'] = segments['channel_with_stream']", "'channel_with_stream' in segments", "channel/stream form: the channel part …"),
        ("segments['stream'] = segments['stream_in_channel']", "", "… and the stream inside it"),
        ("return cls(segments.get('stream', None), segments.get('channel', None))", "", "the URL is (stream, channel) in the tuple's field order"),
    ], "URL parser: ")
    R.refusal_table(ctx, "C16-D4/PARSE", pa, [("Invalid LBRY URL", "match is None")], "URL parser")
    for x in pa.stmts(ast.Assign):
        if norm_text(x) == "segments['stream'] = segments['stream_in_channel']":
            ok = norm_text(R.prev_stmt(x) or ast.Pass()) == "segments['channel'] = segments['channel_with_stream']"
            ctx.ob("C16-D4/PARSE", ok, pa.site(x), "URL parser: both halves of the channel/stream form are set in the same branch", func=pa.fi.qualname)
    lp = pa.stmts(ast.For)
    ok = len(lp) == 1 and norm_text(lp[0].iter) == "('channel', 'stream', 'channel_with_stream', 'stream_in_channel')" and dotted(lp[0].target) == "segment" and \
        any(norm_text(x) == "parts = match.groupdict()" for x in pa.stmts(ast.Assign))
    ctx.ob("C16-D4/PARSE", ok, pa.site(), "URL parser: the four segment kinds of the grammar are read from the match's named groups", func=pa.fi.qualname)
    uc = prog.cls(f"{U}.URL")
    flds = [norm_text(x.target) for x in uc.node.body if isinstance(x, ast.AnnAssign)]
    ctx.ob("C16-D4/PARSE", flds[:2] == ["stream", "channel"], f"lbry/schema/url.py:{uc.node.lineno}", "URL's fields are (stream, channel) — the order parse() fills", detail=str(flds))
    # envelopes: every path returns the object / bytes
    B = "lbry.schema.base.Signable"
    for qn in (f"{B}.to_bytes", "lbry.schema.purchase.Purchase.to_bytes"):
        f = ctx.fa(qn)
        r = R.single_return_value(f)
        ok = r is not None and norm_text(r.value) == "bytes(pieces)" and not R.atomic_facts_at(f, r)[0] and \
            [norm_text(x.value) for x in f.stmts(ast.Assign) if any(dotted(t) == "pieces" for t in x.targets)] == ["bytearray()"]
        ctx.ob("C16-D1/ENVELOPE", ok, f.site(), f"{f.fi.short}: the bytes returned are exactly the assembled pieces", func=qn, key=f"C16-D1/ENVELOPE|{qn}|returns")
    for qn, var in ((f"{B}.from_bytes", "signable"), ("lbry.schema.purchase.Purchase.from_bytes", "purchase")):
        f = ctx.fa(qn)
        r = [x for x in f.stmts(ast.Return)]
        p = f.path([f.cfg.entry], [f.cfg.exit], avoid=lambda n: n.kind == "return", include_exc=False)
        ok = len(r) == 1 and dotted(r[0].value) == var and p is None
        ctx.ob("C16-D1/ENVELOPE", ok, f.site(), f"{f.fi.short}: the parsed object is returned on every accepting path", func=qn, key=f"C16-D1/ENVELOPE|{qn}|returns")
    pf = ctx.fa("lbry.schema.purchase.Purchase.from_bytes")
    d = pf.fi.params()[1]
    R.effect_table(ctx, "C16-D1/ENVELOPE", pf, [f"purchase.has_start_byte({d})"], [
        (f"purchase.message.ParseFromString({d}[1:])", f"purchase.has_start_byte({d})", "a purchase with the start byte is parsed from the bytes after it"),
    ], "Purchase.from_bytes: ")
    R.refusal_table(ctx, "C16-D1/ENVELOPE", pf, [("does not start with correct byte", f"not purchase.has_start_byte({d})")], "Purchase.from_bytes")
    cf = ctx.fa("lbry.schema.claim.Claim.from_bytes")
    d = cf.fi.params()[1]
    R.effect_table(ctx, "C16-D1/LEGACY", cf, [f"{d}[0] == ord('{{')", f"{d}[0] not in (0, 1)"], [
        (f"return super().from_bytes({d})", "", "the current envelope is tried first"),
        ("claim.version = 0", f"{d}[0] == ord('{{')", "bytes starting with '{' are the old JSON schema"),
        (f"compat.from_old_json_schema(claim, {d})", f"{d}[0] == ord('{{')", "…decoded by the JSON migration"),
        ("claim.version = 1", f"not {d}[0] == ord('{{') and {d}[0] not in (0, 1)", "bytes that start neither with '{' nor with an envelope version are the v1 protobuf"),
        (f"compat.from_types_v1(claim, {d})", f"not {d}[0] == ord('{{') and {d}[0] not in (0, 1)", "…decoded by the v1 migration"),
        ("return claim", "", "the migrated claim is returned"),
    ], "legacy claims: ")
    hs = [h for t_ in cf.stmts(ast.Try) for h in t_.handlers]
    bare = [x for x in cf.stmts(ast.Raise) if x.exc is None]
    ok = len(hs) == 1 and norm_text(hs[0].type) == "DecodeError" and len(bare) == 1 and cf.guarded(bare[0], f"not {d}[0] == ord('{{') and not {d}[0] not in (0, 1)")[0]
    ctx.ob("C16-D1/LEGACY", ok, cf.site(), "legacy claims: only a DecodeError of the current envelope falls back; bytes that do carry an envelope version re-raise it", func=cf.fi.qualname,
           key="C16-D1/LEGACY|reraise")
    fu = ctx.fa("lbry.schema.attrs.Fee.update")
    a, c, m = fu.fi.params()[1:4]
    R.refusal_table(ctx, "C16-D3/FEE", fu, [
        ("please specify a fee currency", f"{m} and not {c}"),
        ("Missing or unknown currency", f"{m} and {c} and {c} not in ('lbc', 'btc', 'usd')"),
        ("please specify a fee amount.", f"not {m} and {c}"),
        ("please specify a fee amount and currency", f"{a} and not self.currency"),
    ], "Fee.update")
    R.effect_table(ctx, "C16-D3/FEE", fu, [m, c, f"{c} not in ('lbc', 'btc', 'usd')", a, "self.currency"], [
        (f"{c} = ({c} or self.currency or '').lower()", m, "the currency given (or the one already set) is lower-cased"),
        (f"setattr(self, {c}, Decimal({m}))", f"{m} and {c} and not {c} not in ('lbc', 'btc', 'usd')", "the amount is set through the setter of that currency (lbc / btc / usd)"),
        (f"self.address = {a}", f"{a} and self.currency", "the address is set when a currency is known"),
    ], "Fee.update: ")
    # legacy v1 claims: the payload that was signed is the message WITHOUT its signature field
    fv = ctx.fa("lbry.schema.compat.from_types_v1")
    ups = [x for x in fv.stmts(ast.Assign) if norm_text(x.targets[0]) == "claim.unsigned_payload"]
    clr = [c for c in fv.calls(name="ClearField") if c.args and is_const(c.args[0], "publisherSignature")]
    ok = len(ups) == 1 and len(clr) == 1 and norm_text(ups[0].value) == f"{dotted(clr[0].func.value)}.SerializeToString()" and fv.must_precede(ups[0], lambda n: n is clr[0]) is None
    ctx.ob("C16-D1/LEGACY", ok, fv.site(), "legacy v1: the signature field is cleared before the message is serialised as the unsigned payload (signatures of earlier releases are over the "
           "payload without the signature)", func=fv.fi.qualname, key="C16-D1/LEGACY|unsigned-payload-order")
    tl = ctx.fa("lbry.schema.attrs.TagList.append")
    tg = tl.fi.params()[1]
    nz = [x for x in tl.stmts(ast.Assign) if norm_text(x) == f"{tg} = normalize_tag({tg})"]
    aps = [c for c in tl.calls(dotted_name="self.message.append")]
    ok = len(nz) == 1 and len(aps) == 1 and [dotted(a) for a in aps[0].args] == [tg] and tl.must_precede(aps[0], lambda n: n is nz[0].value) is None and not R.atomic_facts_at(tl, nz[0])[0]
    ctx.ob("C16-D2/SYM", ok, tl.site(), "a tag is normalised first; emptiness and duplicates are judged on, and what is stored is, the normalised tag", func=tl.fi.qualname, key="C16-D2/SYM|taglist")
    for c in aps:
        R.exact_gate(ctx, "C16-D2/SYM", tl, c, f"{tg} and {tg} not in self.message", "…stored exactly when non-empty and new", key="C16-D2/SYM|taglist-exact")
