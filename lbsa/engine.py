"""Per-function analysis façade used by the rule modules."""
import ast
from collections import deque

from . import AnalysisError
from .astutil import (dotted, call_name, walk_local_body, walk_local, MUTATORS, unparse, norm_text, FUNC_NODES,
                      enclosing, ancestors)
from . import cfg as cfgmod
from . import facts as factsmod
from . import terms
from .dataflow import ReachingDefs
from .index import ClassInfo, FunctionInfo


class _Dead:
    kind, lineno, id = "dead", 0, -1


_DEAD = _Dead()


class FA:
    """function analysis: CFG + reaching definitions + path facts for one function"""

    def __init__(self, eng, fi):
        self.eng, self.fi = eng, fi
        self.node = fi.node
        self.cfg = cfgmod.build(fi.node)
        self.rd = ReachingDefs(self.cfg, fi.params())
        self._facts = {}
        self._order = None

    # ------------------------------------------------------------------- facts
    def facts(self, assume=(), await_kills=False, tests_only=False):
        key = (tuple(assume), await_kills, tests_only)
        if key not in self._facts:
            self._facts[key] = factsmod.compute(
                self.cfg, assume=assume, call_kills=self._call_kills,
                expand=lambda e, n: self.rd.expand(e, n), await_kills=await_kills, tests_only=tests_only)
        return self._facts[key]

    def _call_kills(self, call):
        d = dotted(call.func)
        if not d or self.fi.cls is None:
            return set()
        parts = d.split(".")
        if len(parts) == 2 and parts[0] in ("self", "cls"):
            return {f"self.{a}" for a in self.eng.self_writes(self.fi.cls, parts[1])}
        return set()

    # ------------------------------------------------------------------- sites
    def local_nodes(self, types=None):
        for n in walk_local_body(self.node):
            if types is None or isinstance(n, types):
                yield n

    def calls(self, name=None, dotted_name=None, pred=None):
        out = []
        for n in self.local_nodes(ast.Call):
            if name is not None and call_name(n) != name:
                continue
            if dotted_name is not None and dotted(n.func) != dotted_name:
                continue
            if pred is not None and not pred(n):
                continue
            out.append(n)
        out.sort(key=lambda n: (n.lineno, n.col_offset))
        return out

    def stmts(self, types, pred=None):
        """local nodes of the given types in tree order (body, handlers, orelse, finalbody) — equal to source order on an
        untouched tree, and stable when lbsa.alpha swapped mirrored if/else arms back (line numbers are then out of order)"""
        out = [n for n in self.local_nodes(types) if pred is None or pred(n)]
        if self._order is None:
            self._order = {}
            i = 0
            stack = [self.node]
            # explicit pre-order over fields in declaration order
            def visit(n):
                nonlocal i
                self._order[id(n)] = i
                i += 1
                for ch in ast.iter_child_nodes(n):
                    visit(ch)
            visit(self.node)
        out.sort(key=lambda n: self._order.get(id(n), 1 << 30))
        return out

    def cfg_nodes(self, ast_node):
        ns = self.cfg.stmt_nodes_containing(ast_node)
        if not ns:
            raise AnalysisError(f"no CFG node for {unparse(ast_node)[:60]!r} in {self.fi.qualname}")
        return ns

    def site(self, ast_node=None):
        return self.fi.site(ast_node)

    # ------------------------------------------------------------------ guards
    def guarded(self, ast_node, guard, assume=(), await_kills=False):
        """does `guard` (text; conjunction) hold at every CFG node evaluating ast_node, on every
        feasible path?  returns (ok, missing list[(term,pol)], witness str)"""
        F = self.facts(assume, await_kills)
        missing_all = []
        witness = ""
        if all(F.at(n) is None for n in self.cfg_nodes(ast_node)):
            # dead code satisfies any "only under G" vacuously, but every rule here also means "the mechanism exists"
            return False, [("<reachable>", True)], "the construct is unreachable on every feasible path (dead code): the mechanism cannot take effect"
        for n in self.cfg_nodes(ast_node):
            ok, missing = F.holds(n, guard)
            if not ok:
                missing_all.extend(m for m in missing if m not in missing_all)
                if not witness:
                    witness = self.witness_path(n, missing[0], F)
        return not missing_all, missing_all, witness

    def facts_at(self, ast_node, assume=()):
        F = self.facts(assume)
        out = None
        for n in self.cfg_nodes(ast_node):
            have = F.at(n)
            if have is None:
                continue
            out = set(have) if out is None else out & set(have)
        return out or set()

    def witness_path(self, target, missing_pair, F):
        """a feasible entry->target path that never takes an edge establishing the missing fact"""
        term, pol = missing_pair
        prev = {self.cfg.entry.id: None}
        dq = deque([self.cfg.entry])
        while dq:
            n = dq.popleft()
            if n is target:
                break
            for e in n.succ:
                if id(e) not in F.feasible:
                    continue
                if any(l.term == term and l.pol == pol for l in e.labels):
                    continue
                if e.dst.id not in prev:
                    prev[e.dst.id] = (n, e)
                    dq.append(e.dst)
        if target.id not in prev:
            return "guard is tested but a name it mentions is reassigned before the sink"
        steps, cur = [], target
        while prev[cur.id] is not None:
            n, e = prev[cur.id]
            if e.labels:
                steps.append(f"L{n.lineno}[{'T' if e.kind == 'true' else 'F' if e.kind == 'false' else e.kind}]")
            elif e.kind in ("exc", "iter", "exhausted"):
                steps.append(f"L{n.lineno}[{e.kind}]")
            cur = n
        steps.reverse()
        return "path: entry -> " + " -> ".join(steps + [f"L{target.lineno}"])

    # ------------------------------------------------------------------- paths
    def path(self, sources, targets, avoid=None, assume=(), edge_ok=None, include_exc=True, allow_trivial=False):
        """shortest feasible CFG path from any node in sources to any in targets that avoids nodes
        for which avoid(node) is true (sources themselves are not tested).  None if no path."""
        F = self.facts(assume)
        tgt = {n.id for n in targets}
        prev = {}
        dq = deque()
        for s in sources:
            prev[s.id] = None
            dq.append(s)
        byid = {n.id: n for n in self.cfg.nodes}
        while dq:
            n = dq.popleft()
            if n.id in tgt and (prev[n.id] is not None or allow_trivial):
                out = []
                cur = n.id
                while cur is not None:
                    out.append(byid[cur])
                    cur = prev[cur]
                out.reverse()
                return out
            for e in n.succ:
                if id(e) not in F.feasible:
                    continue
                if not include_exc and e.kind == "exc":
                    continue
                if edge_ok is not None and not edge_ok(e):
                    continue
                d = e.dst
                if d.id in prev:
                    continue
                if avoid is not None and d.id not in tgt and avoid(d):
                    continue
                prev[d.id] = n.id
                dq.append(d)
        return None

    def evaluates(self, cfg_node, pred):
        """does CFG node evaluate an AST sub-node satisfying pred?"""
        for e in cfgmod.evaluated_exprs(cfg_node):
            if e is None:
                continue
            for sub in walk_local(e):
                if pred(sub):
                    return True
        return False

    def nodes_where(self, pred):
        return [n for n in self.cfg.nodes if self.evaluates(n, pred)]

    def must_precede(self, target_ast, first_pred, assume=(), include_exc=True):
        """on every feasible path entry -> (node evaluating target_ast), a node evaluating something
        that satisfies first_pred occurs first.  returns None if it holds, else a witness path."""
        targets = self.cfg_nodes(target_ast)
        if not self.reachable(target_ast, assume):
            return [_DEAD]
        avoid = lambda n: self.evaluates(n, first_pred)
        # the target node itself may contain the `first` expression (e.g. f(g(x))): then fine
        targets = [t for t in targets if not self.evaluates(t, lambda s: first_pred(s) and s is not target_ast
                                                            and _before(s, target_ast))]
        if not targets:
            return None
        p = self.path([self.cfg.entry], targets, avoid=avoid, assume=assume, include_exc=include_exc)
        return p

    def always_reaches(self, from_ast, then_pred, assume=(), stop=("exit",), include_exc=False):
        """after evaluating from_ast, every feasible normal path to EXIT passes a node satisfying
        then_pred.  returns None if it holds, else a witness path."""
        srcs = self.cfg_nodes(from_ast)
        if not self.reachable(from_ast, assume):
            return [_DEAD]
        targets = [self.cfg.exit] if "exit" in stop else []
        if "raise" in stop:
            targets.append(self.cfg.raise_exit)
        avoid = lambda n: self.evaluates(n, then_pred)
        return self.path(srcs, targets, avoid=avoid, assume=assume, include_exc=include_exc)

    def fmt_path(self, p):
        if p and p[0] is _DEAD:
            return "<the construct is unreachable on every feasible path (dead code)>"
        return " -> ".join(f"L{n.lineno}" if n.kind not in ("entry", "exit", "raise") else n.kind for n in p)

    def reachable(self, ast_node, assume=()):
        F = self.facts(assume)
        return any(F.at(n) is not None for n in self.cfg_nodes(ast_node))

    # ---------------------------------------------------------------- data flow
    def expand(self, expr, keep=()):
        ns = self.cfg_nodes(expr)
        return self.rd.expand(expr, ns[0], keep=keep)

    def expanded_text(self, expr, keep=()):
        return unparse(self.expand(expr, keep))

    def sources(self, expr):
        ns = self.cfg_nodes(expr)
        return self.rd.sources(expr, ns[0])

    def lexically_inside(self, ast_node, pred):
        """is ast_node lexically inside a statement satisfying pred (within this function)?"""
        for a in ancestors(ast_node):
            if a is self.node:
                return None
            if pred(a):
                return a
        return None


def _before(a, b):
    return (getattr(a, "lineno", 0), getattr(a, "col_offset", 0)) <= (getattr(b, "lineno", 0), getattr(b, "col_offset", 0))


class Engine:
    def __init__(self, prog):
        self.prog = prog
        self._fa = {}
        self._self_writes = {}

    def fa(self, qualname):
        if qualname not in self._fa:
            self._fa[qualname] = FA(self, self.prog.func(qualname))
        return self._fa[qualname]

    def fa_of(self, fi):
        if fi.qualname not in self._fa:
            self.prog.consulted.add(fi.module.relpath)
            self._fa[fi.qualname] = FA(self, fi)
        return self._fa[fi.qualname]

    # transitive `self.attr` writes of a method (through self.m() calls, class hierarchy aware)
    def self_writes(self, cls, method_name, _stack=None):
        key = (cls.qualname, method_name)
        if key in self._self_writes:
            return self._self_writes[key]
        _stack = _stack or set()
        if key in _stack:
            return set()
        _stack = _stack | {key}
        out = set()
        impls = []
        m = self.prog.lookup_method(cls, method_name)
        if m is not None:
            impls.append(m)
        for sub in self.prog.subclasses(cls):
            if method_name in sub.methods:
                impls.append(sub.methods[method_name])
        for m in impls:
            for n in walk_local_body(m.node):
                tg = []
                if isinstance(n, ast.Assign):
                    tg = n.targets
                elif isinstance(n, (ast.AugAssign, ast.AnnAssign)):
                    tg = [n.target]
                elif isinstance(n, ast.Delete):
                    tg = n.targets
                for t in tg:
                    for s in ([t] if not isinstance(t, (ast.Tuple, ast.List)) else t.elts):
                        if isinstance(s, ast.Subscript):
                            s = s.value
                        d = dotted(s)
                        if d and d.startswith("self.") and d.count(".") >= 1:
                            out.add(d.split(".")[1])
                if isinstance(n, ast.Call):
                    f = n.func
                    d = dotted(f)
                    if isinstance(f, ast.Attribute) and f.attr in MUTATORS:
                        r = f.value.value if isinstance(f.value, ast.Subscript) else f.value
                        rd_ = dotted(r)
                        if rd_ and rd_.startswith("self.") and rd_.count(".") >= 1:
                            out.add(rd_.split(".")[1])
                    if d and d.count(".") == 1 and d.split(".")[0] in ("self", "cls"):
                        out |= self.self_writes(m.cls or cls, d.split(".")[1], _stack)
        self._self_writes[key] = out
        return out
