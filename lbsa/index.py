"""Program index: modules, imports, classes (with MRO), functions, site indexes.

Parses every lbry/**/*.py of the repository root given (default /repo).  Nothing
is imported or executed.
"""
import ast
import hashlib
import os

from . import AnalysisError, alpha
from .astutil import (FUNC_NODES, MUTATORS, set_parents, dotted, call_name, walk_local_body, walk_local,
                      enclosing, ancestors)


class Module:
    def __init__(self, name, path, relpath, source, tree):
        self.name, self.path, self.relpath, self.source, self.tree = name, path, relpath, source, tree
        self.imports = {}      # local name -> dotted target ('lbry.blob.MAX_BLOB_SIZE', 'hashlib')
        self.assigns = {}      # module level NAME -> value expr (last assignment)
        self.functions = {}    # top-level function name -> FunctionInfo
        self.classes = {}      # top-level class name -> ClassInfo
        self.is_package = os.path.basename(path) == "__init__.py"

    def __repr__(self):
        return f"<Module {self.name}>"


class ClassInfo:
    def __init__(self, qualname, module, node):
        self.qualname, self.module, self.node = qualname, module, node
        self.name = node.name
        self.base_exprs = node.bases
        self.bases = []        # resolved ClassInfo or dotted str (external)
        self.methods = {}
        self.assigns = {}      # class-level NAME -> value expr
        self.ann = {}          # class-level annotated names -> annotation expr

    def __repr__(self):
        return f"<Class {self.qualname}>"


class FunctionInfo:
    def __init__(self, qualname, module, node, cls=None, parent=None):
        self.qualname, self.module, self.node, self.cls, self.parent = qualname, module, node, cls, parent
        self.name = node.name
        self.locals = {}       # nested function name -> FunctionInfo

    @property
    def relpath(self):
        return self.module.relpath

    @property
    def short(self):
        q = self.qualname
        return q[len(self.module.name) + 1:] if q.startswith(self.module.name + ".") else q

    def params(self):
        a = self.node.args
        return [x.arg for x in a.posonlyargs + a.args] + ([a.vararg.arg] if a.vararg else []) + \
               [x.arg for x in a.kwonlyargs] + ([a.kwarg.arg] if a.kwarg else [])

    def decorators(self):
        return [dotted(d.func if isinstance(d, ast.Call) else d) or "" for d in self.node.decorator_list]

    def site(self, node=None):
        n = node if node is not None else self.node
        return f"{self.relpath}:{getattr(n, 'lineno', '?')}"

    def __repr__(self):
        return f"<Function {self.qualname}>"


class Program:
    def __init__(self, root, packages=("lbry",), extra_dirs=()):
        self.root = os.path.abspath(root)
        self.modules = {}
        self.functions = {}
        self.classes = {}
        self._node_func = {}
        self.consulted = set()
        self._raw = {}
        self.renamed = {}          # module -> {unit: {current local name: reference name}} (lbsa.alpha)
        self._attr_write_index, self._call_index, self._ref_index = {}, {}, {}
        for pkg in packages:
            self._load_tree(os.path.join(self.root, pkg))
        for d in extra_dirs:
            self._load_tree(os.path.join(self.root, d), as_scripts=True)
        if not self.modules:
            raise AnalysisError(f"no python modules found under {self.root}")
        # second phase: every module is parsed — bring edited modules back to the shape of the reference (lbsa.alpha / lbsa.derefactor); the signature
        # table (parameter names of the repo's functions, for keyword <-> positional arguments) needs all trees
        sigs = None
        for name, m in self.modules.items():
            if alpha.is_reference(name, self._raw.get(name)):
                continue
            if sigs is None:
                sigs = alpha.signatures(mm.tree for mm in self.modules.values())
                from . import derefactor as _dr
                _dr.PURE_NAMES = alpha.pure_getters(mm.tree for mm in self.modules.values())
                _dr.MUTABLE_ATTRS = alpha.mutable_attrs(mm.tree for mm in self.modules.values())
                _dr.INT_CONSTANTS = alpha.int_constants(mm.tree for mm in self.modules.values())
            import copy as _copy
            backup = _copy.deepcopy(m.tree)
            try:
                ren = alpha.normalise(name, m.tree, self._raw.get(name), sigs)
                for n_ in ast.walk(m.tree):           # every node the passes created carries a position
                    if isinstance(n_, (ast.stmt, ast.expr)) and not hasattr(n_, "lineno"):
                        ast.fix_missing_locations(m.tree)
                        break
            except Exception as e:                    # a normalisation must never be the reason a check cannot run: analyse the module as written
                m.tree = backup
                ren = {"<module>": {"<normalisation skipped>": f"{type(e).__name__}: {e}"[:200]}}
            if ren:
                self.renamed[name] = ren
        self._raw = {}
        for m in self.modules.values():
            self._index_module(m)
        for c in self.classes.values():
            self._resolve_bases(c)
        self._subclasses = {}
        for c in self.classes.values():
            for b in c.bases:
                if isinstance(b, ClassInfo):
                    self._subclasses.setdefault(b.qualname, []).append(c)

    # ------------------------------------------------------------------ loading
    def _load_tree(self, top, as_scripts=False):
        if not os.path.isdir(top):
            if as_scripts:
                return
            raise AnalysisError(f"package directory missing: {top}")
        for dirpath, dirnames, filenames in os.walk(top):
            dirnames[:] = sorted(d for d in dirnames if d != "__pycache__")
            for fn in sorted(filenames):
                if not fn.endswith(".py"):
                    continue
                path = os.path.join(dirpath, fn)
                rel = os.path.relpath(path, self.root)
                parts = rel[:-3].split(os.sep)
                if parts[-1] == "__init__":
                    parts = parts[:-1]
                name = ".".join(parts)
                try:
                    with open(path, "rb") as f:
                        raw = f.read()
                    src = raw.decode("utf-8")
                    tree = ast.parse(src, filename=path)
                except (SyntaxError, UnicodeDecodeError, OSError) as e:
                    raise AnalysisError(f"cannot parse {rel}: {e}")
                alpha.strip_logging(tree)
                self._raw[name] = raw
                self.modules[name] = Module(name, path, rel, src, tree)

    def _index_module(self, m):
        """one traversal: parent links, imports, defs, module/class level assigns, site indexes"""
        pkg = m.name if m.is_package else m.name.rpartition(".")[0]
        calls, refs, writes = self._call_index, self._ref_index, self._attr_write_index
        prog = self

        def add_import(node):
            if isinstance(node, ast.Import):
                for a in node.names:
                    if a.asname:
                        m.imports[a.asname] = a.name
                    else:
                        m.imports[a.name.split(".")[0]] = a.name.split(".")[0]
            else:
                base = node.module or ""
                if node.level:
                    up = pkg.split(".") if pkg else []
                    if node.level > 1:
                        up = up[:len(up) - (node.level - 1)]
                    base = ".".join(up + ([base] if base else []))
                for a in node.names:
                    m.imports[a.asname or a.name] = f"{base}.{a.name}" if base else a.name

        def record_writes(node):
            tgts = []
            if isinstance(node, ast.Assign):
                tgts = [(t, "assign") for t in node.targets]
            elif isinstance(node, ast.AugAssign):
                tgts = [(node.target, "augassign")]
            elif isinstance(node, ast.AnnAssign):
                if node.value is not None:
                    tgts = [(node.target, "assign")]
            elif isinstance(node, ast.Delete):
                tgts = [(t, "delete") for t in node.targets]
            else:
                tgts = [(node.target, "assign")]
            flat = []
            for t, k in tgts:
                if isinstance(t, (ast.Tuple, ast.List)):
                    flat.extend((e, k) for e in t.elts)
                else:
                    flat.append((t, k))
            for t, k in flat:
                if isinstance(t, ast.Attribute):
                    writes.setdefault(t.attr, []).append((m, node, k, t))
                elif isinstance(t, ast.Subscript) and isinstance(t.value, ast.Attribute):
                    writes.setdefault(t.value.attr, []).append((m, node, f"item-{k}", t.value))

        def visit(node, parent, scope_kind, cls, func, prefix):
            """scope_kind: 'module' | 'class' | 'func' — the innermost enclosing scope"""
            node._parent = parent
            t = type(node)
            if t is ast.Call:
                n = call_name(node)
                if n:
                    calls.setdefault(n, []).append((m, node))
                f = node.func
                if isinstance(f, ast.Attribute) and f.attr in MUTATORS:
                    recv = f.value
                    if isinstance(recv, ast.Subscript):
                        recv = recv.value
                    if isinstance(recv, ast.Attribute):
                        writes.setdefault(recv.attr, []).append((m, node, f"call:{f.attr}", recv))
            elif t is ast.Name:
                refs.setdefault(node.id, []).append((m, node))
            elif t is ast.Attribute:
                refs.setdefault(node.attr, []).append((m, node))
            elif t in (ast.Import, ast.ImportFrom):
                add_import(node)
            elif t in (ast.Assign, ast.AugAssign, ast.AnnAssign, ast.Delete, ast.For, ast.AsyncFor):
                record_writes(node)
                if scope_kind == "module":
                    if t is ast.Assign:
                        for tg in node.targets:
                            if isinstance(tg, ast.Name):
                                m.assigns[tg.id] = node.value
                    elif t is ast.AnnAssign and node.value is not None and isinstance(node.target, ast.Name):
                        m.assigns[node.target.id] = node.value
                elif scope_kind == "class" and parent is cls.node:
                    if t is ast.Assign:
                        for tg in node.targets:
                            if isinstance(tg, ast.Name):
                                cls.assigns[tg.id] = node.value
                    elif t is ast.AnnAssign and isinstance(node.target, ast.Name):
                        cls.ann[node.target.id] = node.annotation
                        if node.value is not None:
                            cls.assigns[node.target.id] = node.value
            if t in FUNC_NODES:
                q = f"{prefix}.{node.name}"
                fi = FunctionInfo(q, m, node, cls=cls if scope_kind == "class" else None,
                                  parent=func if scope_kind == "func" else None)
                key = q
                if key in prog.functions:
                    decs = [(dotted(d) or "") for d in node.decorator_list]
                    tag = "setter" if any(d.endswith(".setter") for d in decs) else \
                          "deleter" if any(d.endswith(".deleter") for d in decs) else f"redef{node.lineno}"
                    key = f"{q}@{tag}"
                    fi.qualname = key
                prog.functions[key] = fi
                prog._node_func[id(node)] = fi
                if scope_kind == "class":
                    cls.methods[node.name if key == q else f"{node.name}@{key.rpartition('@')[2]}"] = fi
                elif scope_kind == "func":
                    func.locals[node.name] = fi
                else:
                    m.functions[node.name] = fi
                for c in ast.iter_child_nodes(node):
                    visit(c, node, "func", None, fi, f"{fi.qualname}.<locals>")
                return
            if t is ast.ClassDef:
                q = f"{prefix}.{node.name}"
                ci = ClassInfo(q, m, node)
                prog.classes[q] = ci
                if scope_kind == "module":
                    m.classes[node.name] = ci
                for c in ast.iter_child_nodes(node):
                    visit(c, node, "class", ci, func, q)
                return
            for c in ast.iter_child_nodes(node):
                visit(c, node, scope_kind, cls, func, prefix)

        import sys
        old = sys.getrecursionlimit()
        sys.setrecursionlimit(max(old, 10000))
        try:
            m.tree._parent = None
            for c in ast.iter_child_nodes(m.tree):
                visit(c, m.tree, "module", None, None, m.name)
        finally:
            sys.setrecursionlimit(old)

    def _resolve_bases(self, c):
        for b in c.base_exprs:
            d = dotted(b)
            if d is None and isinstance(b, ast.Subscript):
                d = dotted(b.value)
            target = self.resolve_name(c.module, d) if d else None
            c.bases.append(target if isinstance(target, ClassInfo) else (d or "?"))

    # --------------------------------------------------------------- resolution
    def resolve_name(self, module, name):
        """Resolve a dotted name as seen from `module` to a ClassInfo / FunctionInfo /
        Module / ('const', Module|ClassInfo, NAME) / None (external or unknown)."""
        if not name:
            return None
        parts = name.split(".")
        head = parts[0]
        cur = None
        if head in module.classes:
            cur = module.classes[head]
        elif head in module.functions:
            cur = module.functions[head]
        elif head in module.imports:
            cur = self._resolve_abs(module.imports[head])
        elif head in module.assigns:
            cur = ("const", module, head)
        else:
            return None
        for p in parts[1:]:
            cur = self._member(cur, p)
            if cur is None:
                return None
        return cur

    def _resolve_abs(self, dotted_name, _depth=0):
        if _depth > 8:
            return None
        parts = dotted_name.split(".")
        for i in range(len(parts), 0, -1):
            mod = ".".join(parts[:i])
            if mod in self.modules:
                cur = self.modules[mod]
                for p in parts[i:]:
                    cur = self._member(cur, p, _depth)
                    if cur is None:
                        return None
                return cur
        return None

    def _member(self, cur, p, _depth=0):
        if isinstance(cur, Module):
            if p in cur.classes:
                return cur.classes[p]
            if p in cur.functions:
                return cur.functions[p]
            sub = f"{cur.name}.{p}"
            if sub in self.modules:
                return self.modules[sub]
            if p in cur.imports:
                return self._resolve_abs(cur.imports[p], _depth + 1)
            if p in cur.assigns:
                return ("const", cur, p)
            return None
        if isinstance(cur, ClassInfo):
            for k in self.mro(cur):
                if p in k.methods:
                    return k.methods[p]
                if p in k.assigns:
                    return ("const", k, p)
            return None
        return None

    def mro(self, cls):
        """linearisation good enough for single inheritance + mixins (depth first, dedup keeping last)"""
        out = []

        def visit(c):
            out.append(c)
            for b in c.bases:
                if isinstance(b, ClassInfo):
                    visit(b)
        visit(cls)
        seen, res = set(), []
        for c in reversed(out):
            if c.qualname not in seen:
                seen.add(c.qualname)
                res.append(c)
        res.reverse()
        # keep cls first
        res.remove(cls)
        return [cls] + res

    def subclasses(self, cls, transitive=True):
        out, todo = [], list(self._subclasses.get(cls.qualname, []))
        while todo:
            c = todo.pop()
            if c not in out:
                out.append(c)
                if transitive:
                    todo.extend(self._subclasses.get(c.qualname, []))
        return out

    def lookup_method(self, cls, name):
        for k in self.mro(cls):
            if name in k.methods:
                return k.methods[name]
        return None

    def is_subclass(self, cls, base_qualname):
        return any(k.qualname == base_qualname for k in self.mro(cls))

    # ------------------------------------------------------------------ anchors
    def func(self, qualname):
        f = self.functions.get(qualname)
        if f is None:
            raise AnalysisError(f"anchor-vanished function {qualname}")
        self.consulted.add(f.module.relpath)
        return f

    def cls(self, qualname):
        c = self.classes.get(qualname)
        if c is None:
            raise AnalysisError(f"anchor-vanished class {qualname}")
        self.consulted.add(c.module.relpath)
        return c

    def module(self, name):
        m = self.modules.get(name)
        if m is None:
            raise AnalysisError(f"anchor-vanished module {name}")
        self.consulted.add(m.relpath)
        return m

    def has_func(self, qualname):
        return qualname in self.functions

    def functions_in(self, module_prefix):
        return [f for f in self.functions.values()
                if f.module.name == module_prefix or f.module.name.startswith(module_prefix + ".")]

    def function_of(self, node):
        """innermost FunctionInfo whose def encloses node (None at module/class level)"""
        for a in ancestors(node):
            if isinstance(a, FUNC_NODES):
                return self._node_func.get(id(a))
        return None

    def module_of(self, node):
        n = node
        while getattr(n, "_parent", None) is not None:
            n = n._parent
        for m in self.modules.values():
            if m.tree is n:
                return m
        return None

    # ------------------------------------------------------------- site indexes
    def attr_writes(self, attr):
        """[(module, stmt/call node, kind, receiver Attribute node)] for every syntactic write of `.attr`"""
        return list(self._attr_write_index.get(attr, []))

    def calls_named(self, name):
        return list(self._call_index.get(name, []))

    def refs_named(self, name):
        """every Name / Attribute node whose identifier is `name` (loads, stores, calls, passes)"""
        return list(self._ref_index.get(name, []))

    # ------------------------------------------------------------------- digest
    def digest(self, relpaths=None):
        h = hashlib.sha256()
        for m in sorted(self.modules.values(), key=lambda x: x.relpath):
            if relpaths is None or m.relpath in relpaths:
                h.update(m.relpath.encode())
                h.update(m.source.encode())
        return h.hexdigest()

    def stats(self):
        return {"modules": len(self.modules), "functions": len(self.functions), "classes": len(self.classes)}
