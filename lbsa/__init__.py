"""lbsa — LBry Static Analysis.

Repository-specific static checkers for the 20 fixed properties of lbry-sdk.
Nothing here imports or executes repository code: every verdict is computed
from the syntax trees of /repo's current working tree.
"""

REPO_DEFAULT = "/repo"


class AnalysisError(Exception):
    """The checker (not the repository) cannot decide: parse failure, vanished
    anchor, rule instance count below its floor, internal error.  Exit code 2."""
