"""Obligation bookkeeping, known findings, evidence files."""
import json
import os
import time

from . import AnalysisError

VERIF = os.path.dirname(os.path.dirname(os.path.abspath(__file__)))
KNOWN_FINDINGS = os.path.join(VERIF, "known_findings.json")
EVIDENCE_DIR = os.environ.get("LBSA_EVIDENCE_DIR") or os.path.join(VERIF, "evidence")


class Ctx:
    """what a property module receives"""

    def __init__(self, pid, eng, tier="quick"):
        self.pid, self.eng, self.prog, self.tier = pid, eng, eng.prog, tier
        self.obligations = []     # dicts
        self.violations = []
        self.notes = []
        self.t0 = time.time()

    # ---------------------------------------------------------------- recording
    def ob(self, rule, ok, site, what, detail="", key=None, func=None):
        """record one obligation.  rule: 'C01-D1/GATE'.  key: stable identity of the construct
        (defaults to rule + function + what) used to match known findings."""
        rec = {"rule": rule, "site": site, "what": what, "verdict": "holds" if ok else "VIOLATED"}
        if func:
            rec["function"] = func
        if detail:
            rec["detail"] = detail
        rec["key"] = key or f"{rule}|{func or ''}|{what}"
        self.obligations.append(rec)
        if not ok:
            self.violations.append(rec)
        return ok

    def floor(self, rule, what, found, minimum, site=None, func=None, hard=False):
        """a rule instance must match at least `minimum` constructs.  The enclosing anchor (function,
        class, module) exists — otherwise prog.func() already raised ANALYSIS-ERROR — so fewer matches
        mean the mechanism the rule looks for was removed or rewritten beyond recognition: that is
        reported as a violation naming the missing construct, never a silent (vacuous) pass.
        hard=True keeps the old behaviour (analysis error) for sites that are pure bookkeeping."""
        if found >= minimum:
            return True
        if hard:
            raise AnalysisError(f"{rule}: {what}: matched {found} construct(s), expected at least {minimum} "
                                f"(anchor moved or idiom not recognised)")
        self.ob(rule, False, site or "lbry:0", f"mechanism present: {what}",
                detail=f"matched {found} construct(s), expected at least {minimum}: the construct was removed or no longer "
                       f"has the shape the property relies on", func=func, key=f"{rule}|{func or ''}|missing|{what}")
        return False

    def note(self, text):
        self.notes.append(text)

    def fa(self, qualname):
        return self.eng.fa(qualname)


def load_known():
    try:
        with open(KNOWN_FINDINGS) as f:
            data = json.load(f)
    except FileNotFoundError:
        return {"findings": [], "fixed": []}
    return data


def split_known(pid, violations):
    """-> (known list[(violation, finding)], new list[violation])"""
    known = [k for k in load_known().get("findings", []) if k.get("property") == pid]
    ks, new = [], []
    for v in violations:
        hit = next((k for k in known if k.get("key") == v["key"]), None)
        if hit:
            ks.append((v, hit))
        else:
            new.append(v)
    return ks, new


def write_evidence(ctx, explanation, assumptions, known, new, extra=None, level="other"):
    os.makedirs(EVIDENCE_DIR, exist_ok=True)
    obs = ctx.obligations
    distinct = len({o["key"] for o in obs})
    consulted = sorted(ctx.prog.consulted)
    cov = {
        "explanation": explanation,
        "evaluations": len(obs),
        "distinct_nontrivial": distinct,
        "rule": "one evaluation = one rule instance applied to one construct (file:line) of /repo's current "
                "working tree; distinct = distinct (rule, function, construct) keys; an instance that matches "
                "fewer constructs than its hand-confirmed floor aborts the run as ANALYSIS-ERROR",
        "obligations": len(obs),
        "discharged": len(obs) - len(ctx.violations),
        "known_findings_reported": len(known),
        "samples": [{k: o[k] for k in ("rule", "site", "what", "verdict") if k in o} |
                    ({"detail": o["detail"]} if o.get("detail") else {}) for o in obs[:400]],
        "rules": sorted({o["rule"] for o in obs}),
        "program": ctx.prog.stats(),
        "functions_analysed": sorted(ctx.eng._fa.keys()),
        "files_consulted": consulted,
        "source_digest": ctx.prog.digest(set(consulted)),
        "notes": ctx.notes,
        "exhaustive": True,
    }
    if extra:
        cov.update(extra)
    ev = {
        "property_id": ctx.pid,
        "tier": ctx.tier,
        "seed": int(os.environ.get("VERIF_SEED", "0") or 0),
        "level": level,
        "coverage": cov,
        "assumptions": assumptions,
        "wall_s": round(time.time() - ctx.t0, 3),
        "violations": len(new),
    }
    path = os.path.join(EVIDENCE_DIR, f"{ctx.pid}.json")
    tmp = path + ".tmp"
    with open(tmp, "w") as f:
        json.dump(ev, f, indent=1, sort_keys=False, default=str)
    os.replace(tmp, path)
    vpath = os.path.join(EVIDENCE_DIR, f"{ctx.pid}.violations.json")
    if new or known:
        with open(vpath, "w") as f:
            json.dump({"property": ctx.pid, "violations": new,
                       "known_findings": [v for v, _ in known]}, f, indent=1, default=str)
    elif os.path.exists(vpath):
        os.remove(vpath)
    return path, vpath


def obligation_floor(pid):
    """minimum number of rule instances a complete run evaluates for this property (tools/gen_floors.py: 90 % of the count on the reference tree)"""
    try:
        with open(os.path.join(os.path.dirname(os.path.abspath(__file__)), "obligation_floors.json")) as f:
            return int(json.load(f).get(pid, 1))
    except (OSError, ValueError):
        return 1
