"""Undo behaviour-preserving refactorings relative to the reference tree, before any rule looks at a module.

The rules speak about the mechanisms in the vocabulary of the reference tree (its functions, its locals, its literals).  A maintainer who names a magic
number, pulls a few lines out into a private helper or introduces a temporary has changed none of the behaviour, and must not change a verdict.  Each of
the three edits introduces a NEW NAME — a module constant, a function, a local — that the reference module / unit does not have (lbsa/refnames.json
records the reference's names).  New names are made transparent again:

  constants   NAME = <literal | name | attribute | tuple / arithmetic of those>, assigned once at module level, not in the reference module:
              every load of NAME inside the module is replaced by the value.
  helpers     a function or method that the reference module does not have, whose body is straight-line (no early return, no yield), called with plain
              positional / keyword arguments:
                f(args)                      as an expression, when the body is a single `return <expr>`:  the expression, parameters replaced by arguments
                f(args) / x = f(args) / return f(args) / await … as a whole statement:                      the body, parameters replaced, a final
                                                                                                             `return e` becoming `x = e` / `return e` / `e`
              a helper all of whose uses were inlined is dropped from the tree.
  temporaries a local that the reference unit does not have (and that is not a renamed reference local), assigned exactly once by a plain assignment
              and only read in the statement that directly follows — or, when its value consists of local names, literals and operators only, anywhere
              after it while none of those names is rebound: reads are replaced by the value and the assignment is dropped.

Each step is the textbook inverse of a refactoring and preserves the meaning of the program under the stated side conditions (argument expressions and
inlined values are substituted only where that cannot reorder or duplicate an effect: plain names, attribute chains, literals; a value containing a
call or await is substituted at one place only, in the directly following statement).  When a side condition does not hold nothing is changed and the
rules see the program as written.  Everything is keyed on names the reference does not have, so an unmodified module is never touched.
"""
import ast
import copy

_FUNC = (ast.FunctionDef, ast.AsyncFunctionDef)
_SCOPES = _FUNC + (ast.Lambda, ast.ClassDef)


# ------------------------------------------------------------------------------------------------------------------ helpers
def _simple_value(e, depth=0):
    """literal / name / attribute chain / tuple, list, arithmetic of those: can be substituted anywhere without reordering effects"""
    if depth > 6:
        return False
    if isinstance(e, ast.Constant):
        return True
    if isinstance(e, ast.Name):
        return True
    if isinstance(e, ast.Attribute):
        return _simple_value(e.value, depth + 1)
    if isinstance(e, (ast.Tuple, ast.List, ast.Set)):
        return all(_simple_value(x, depth + 1) for x in e.elts)
    if isinstance(e, ast.BinOp):
        return _simple_value(e.left, depth + 1) and _simple_value(e.right, depth + 1)
    if isinstance(e, ast.UnaryOp):
        return _simple_value(e.operand, depth + 1)
    if isinstance(e, ast.Call) and isinstance(e.func, ast.Attribute) and e.func.attr == "compile" and isinstance(e.func.value, ast.Name) and e.func.value.id == "re":
        return False
    return False


def _pure_local(e):
    """only names, literals and operators (no attribute, subscript, call): its value can only change when one of the names is rebound"""
    return all(isinstance(n, (ast.Name, ast.Constant, ast.BinOp, ast.UnaryOp, ast.BoolOp, ast.Compare, ast.Tuple, ast.List, ast.operator, ast.unaryop, ast.boolop,
                              ast.cmpop, ast.expr_context, ast.IfExp)) for n in ast.walk(e))


def _bound_names(fn):
    out = set()
    for n in ast.walk(fn):
        if isinstance(n, ast.arg):
            out.add(n.arg)
        elif isinstance(n, ast.Name) and isinstance(n.ctx, (ast.Store, ast.Del)):
            out.add(n.id)
        elif isinstance(n, _FUNC + (ast.ClassDef,)) and n is not fn:
            out.add(n.name)
        elif isinstance(n, ast.ExceptHandler) and n.name:
            out.add(n.name)
        elif isinstance(n, (ast.Import, ast.ImportFrom)):
            for a in n.names:
                out.add((a.asname or a.name).split(".")[0])
    return out


class _Subst(ast.NodeTransformer):
    def __init__(self, mapping):
        self.m = mapping

    def visit_Name(self, n):
        if isinstance(n.ctx, ast.Load) and n.id in self.m:
            return ast.copy_location(copy.deepcopy(self.m[n.id]), n)
        return n


def _blocks(node):
    for parent in ast.walk(node):
        for field in ("body", "orelse", "finalbody"):
            seq = getattr(parent, field, None)
            if isinstance(seq, list) and seq and isinstance(seq[0], ast.stmt):
                yield parent, field, seq


def _relocate(node, at):
    """give every node of an inlined fragment the position of the call site (reports then point at the caller's line)"""
    for n in ast.walk(node):
        if hasattr(n, "lineno") or isinstance(n, (ast.expr, ast.stmt)):
            n.lineno, n.col_offset = at.lineno, at.col_offset
            n.end_lineno, n.end_col_offset = getattr(at, "end_lineno", at.lineno), getattr(at, "end_col_offset", at.col_offset)
    return node


# ------------------------------------------------------------------------------------------------------------------ constants
def inline_constants(tree, ref_assigned):
    cands = {}
    counts = {}
    for st in tree.body:
        tg = None
        if isinstance(st, ast.Assign) and len(st.targets) == 1 and isinstance(st.targets[0], ast.Name):
            tg, val = st.targets[0].id, st.value
        elif isinstance(st, ast.AnnAssign) and isinstance(st.target, ast.Name) and st.value is not None:
            tg, val = st.target.id, st.value
        if tg is None:
            continue
        counts[tg] = counts.get(tg, 0) + 1
        if tg not in ref_assigned and _simple_value(val) and not tg.startswith("__"):
            cands[tg] = val
    stores = {}
    for n in ast.walk(tree):
        if isinstance(n, ast.Name) and isinstance(n.ctx, (ast.Store, ast.Del)):
            stores[n.id] = stores.get(n.id, 0) + 1
        elif isinstance(n, ast.Global):
            for x in n.names:
                stores[x] = stores.get(x, 0) + 2
    cands = {k: v for k, v in cands.items() if counts.get(k) == 1 and stores.get(k, 0) == 1}
    # a constant defined in terms of another new constant: resolve first
    for _ in range(4):
        for k in list(cands):
            cands[k] = _Subst({x: y for x, y in cands.items() if x != k}).visit(copy.deepcopy(cands[k]))
    if not cands:
        return 0
    n = 0

    def visit(node, shadow):
        nonlocal n
        for fld, val in ast.iter_fields(node):
            items = val if isinstance(val, list) else [val]
            for i, ch in enumerate(items):
                if not isinstance(ch, ast.AST):
                    continue
                if isinstance(ch, ast.Name) and isinstance(ch.ctx, ast.Load) and ch.id in cands and ch.id not in shadow:
                    new = ast.copy_location(copy.deepcopy(cands[ch.id]), ch)
                    _relocate(new, ch)
                    for x_ in ast.walk(new):
                        x_._inl = True
                    if isinstance(val, list):
                        val[i] = new
                    else:
                        setattr(node, fld, new)
                    n += 1
                    continue
                sh = shadow
                if isinstance(ch, _FUNC + (ast.Lambda,)):
                    sh = shadow | (_bound_names(ch) & set(cands))
                visit(ch, sh)
    visit(tree, frozenset())
    # the definitions stay (harmless); exception handlers `except NAME:` were substituted like any other load
    fold_inlined(tree)
    return n


class _FoldInlined(ast.NodeTransformer):
    """integer arithmetic and f-string pieces whose operands are inlined constants are folded (`1 + 20` -> `21`, `{x:0{8}d}` -> `{x:08d}`); expressions the
    maintainer did not touch are left as written"""

    def visit_BinOp(self, node):
        self.generic_visit(node)
        l, r = node.left, node.right
        if isinstance(l, ast.Constant) and isinstance(r, ast.Constant) and type(l.value) is int and type(r.value) is int and (getattr(l, "_inl", False) or getattr(r, "_inl", False)):
            try:
                v = {ast.Add: lambda: l.value + r.value, ast.Sub: lambda: l.value - r.value, ast.Mult: lambda: l.value * r.value,
                     ast.LShift: lambda: l.value << r.value if 0 <= r.value < 512 else None, ast.FloorDiv: lambda: l.value // r.value if r.value else None}.get(type(node.op), lambda: None)()
            except Exception:
                v = None
            if v is not None:
                c = ast.copy_location(ast.Constant(value=v), node)
                c._inl = True
                return c
        return node

    def visit_JoinedStr(self, node):
        self.generic_visit(node)
        vals, changed = [], False
        for v in node.values:
            if isinstance(v, ast.FormattedValue) and isinstance(v.value, ast.Constant) and getattr(v.value, "_inl", False) and v.conversion == -1 and v.format_spec is None and \
                    type(v.value.value) in (int, str):
                v = ast.copy_location(ast.Constant(value=str(v.value.value)), v)
                changed = True
            if vals and isinstance(v, ast.Constant) and isinstance(vals[-1], ast.Constant) and isinstance(v.value, str) and isinstance(vals[-1].value, str):
                vals[-1] = ast.copy_location(ast.Constant(value=vals[-1].value + v.value), vals[-1])
                changed = True
            else:
                vals.append(v)
        if changed:
            node.values = vals
        return node


def fold_inlined(tree):
    _FoldInlined().visit(tree)



# ------------------------------------------------------------------------------------------------------------------ helper functions
def _ladder_expr(body):
    """`if c1: return e1` … `return en`   (also if/else forms)  ->  the expression `e1 if c1 else (… en)`; None when the statements are not such a ladder"""
    if not body:
        return None
    st = body[0]
    if isinstance(st, ast.Return) and len(body) == 1:
        return st.value if st.value is not None else ast.Constant(value=None)
    if isinstance(st, ast.If):
        a = _ladder_expr(st.body)
        if a is None:
            return None
        b = _ladder_expr(st.orelse) if st.orelse else _ladder_expr(body[1:])
        if st.orelse and len(body) > 1:
            return None
        if b is None:
            return None
        if isinstance(a, ast.Constant) and a.value is True and isinstance(b, ast.Constant) and b.value is False:
            return st.test
        if isinstance(a, ast.Constant) and a.value is True:
            return ast.BoolOp(op=ast.Or(), values=[st.test, b])
        if isinstance(a, ast.Constant) and a.value is False and isinstance(b, ast.Constant) and b.value is True:
            return ast.UnaryOp(op=ast.Not(), operand=st.test)
        return ast.IfExp(test=st.test, body=a, orelse=b)
    return None


def _straight_line(fn):
    """(statements before the final return, final return expr or None) if the body has no other return / yield / nested scope that captures parameters"""
    body = list(fn.body)
    if body and isinstance(body[0], ast.Expr) and isinstance(body[0].value, ast.Constant) and isinstance(body[0].value.value, str):
        body = body[1:]
    lad = _ladder_expr(body) if len(body) > 1 or (body and isinstance(body[0], ast.If)) else None
    if lad is not None and not any(isinstance(n, (ast.Yield, ast.YieldFrom, ast.Await)) for n in ast.walk(lad)):
        return [], lad
    ret = None
    if body and isinstance(body[-1], ast.Return):
        ret = body[-1].value if body[-1].value is not None else ast.Constant(value=None)
        body = body[:-1]
    for st in body:
        for n in ast.walk(st):
            if isinstance(n, (ast.Return, ast.Yield, ast.YieldFrom, ast.Global, ast.Nonlocal)) or isinstance(n, _FUNC + (ast.ClassDef,)):
                return None
    return body, ret


def _bind(fn, call, method_kind):
    """{parameter: argument expression} or None"""
    a = fn.args
    if a.vararg or a.kwarg or a.posonlyargs:
        return None
    params = [x.arg for x in a.args]
    defaults = dict(zip(params[len(params) - len(a.defaults):], a.defaults))
    for p, d in zip(a.kwonlyargs, a.kw_defaults):
        params.append(p.arg)
        if d is not None:
            defaults[p.arg] = d
    mapping = {}
    if method_kind in ("self", "cls"):
        if not params:
            return None
        recv = call.func.value if isinstance(call.func, ast.Attribute) else None
        if recv is None:
            return None
        mapping[params[0]] = recv
        params = params[1:]
    if any(isinstance(x, ast.Starred) for x in call.args) or any(k.arg is None for k in call.keywords) or len(call.args) > len(params):
        return None
    for p, v in zip(params, call.args):
        mapping[p] = v
    for k in call.keywords:
        if k.arg not in params or k.arg in mapping:
            return None
        mapping[k.arg] = k.value
    for p in params:
        if p not in mapping:
            if p not in defaults:
                return None
            mapping[p] = defaults[p]
    # arguments must be substitutable without duplicating / reordering effects: plain values anywhere, anything else only for a parameter read exactly once
    reads = {}
    for n in ast.walk(fn):
        if isinstance(n, ast.Name) and isinstance(n.ctx, ast.Load):
            reads[n.id] = reads.get(n.id, 0) + 1
    for p, v in mapping.items():
        if not _simple_value(v) and reads.get(p, 0) > 1:
            return None
    return mapping


def _dead_at(caller, call, v):
    """the caller's variable v holds nothing that is read after (or, in a loop, around) the call: the helper's local of the same name can take its place"""
    order = []

    def dfs(n):
        if isinstance(n, ast.Name) and n.id == v:
            order.append(("store" if isinstance(n.ctx, (ast.Store, ast.Del)) else "load", n))
        elif n is call:
            for ch in ast.iter_child_nodes(n):       # the arguments are evaluated before the call happens
                dfs(ch)
            order.append(("call", n))
            return
        if isinstance(n, (ast.Assign, ast.AugAssign, ast.AnnAssign)):
            # value before targets
            if getattr(n, "value", None) is not None:
                dfs(n.value)
            for t in (n.targets if isinstance(n, ast.Assign) else [n.target]):
                dfs(t)
            return
        if isinstance(n, (ast.For, ast.AsyncFor)):
            dfs(n.iter)
            dfs(n.target)
            for x in n.body + n.orelse:
                dfs(x)
            return
        if isinstance(n, (ast.ListComp, ast.SetComp, ast.DictComp, ast.GeneratorExp)):
            own = {x.id for g in n.generators for x in ast.walk(g.target) if isinstance(x, ast.Name)}
            if v in own:
                for g in n.generators[:1]:
                    dfs(g.iter)          # only the first iterable is evaluated in the enclosing scope
                return
        for ch in ast.iter_child_nodes(n):
            dfs(ch)
    dfs(caller)
    kinds = [k for k, _n in order]
    if "call" not in kinds:
        return False
    i = kinds.index("call")
    after = [k for k in kinds[i + 1:] if k != "call"]
    if after and after[0] == "load":
        return False
    # inside a loop the code before the call runs again after it
    loops = [n for n in ast.walk(caller) if isinstance(n, (ast.For, ast.AsyncFor, ast.While)) and any(x is call for x in ast.walk(n))]
    if loops:
        inner = [k for k, n in order if any(n is x for x in ast.walk(loops[0]))]
        inner = [k for k in inner if k != "call"]
        if inner and inner[0] == "load":
            return False
    if isinstance(caller, _FUNC) and any(isinstance(n, _SCOPES) and n is not caller and any(isinstance(x, ast.Name) and x.id == v for x in ast.walk(n)) for n in ast.walk(caller)):
        return False
    return True


def _distribute(tree, us, two_way, ref_units):
    """S[h(x)] where h is `if c: return A` ; stmts ; `return B`   ->   `if c: S[A]` / `else: stmts ; S[B]`     (S an expression statement whose other parts are plain values)"""
    n = 0
    names_in_ref = {q.split(".")[-1].split("#")[0] for q in ref_units}
    for cq, caller in us:
        for parent, field, seq in list(_blocks(caller)):
            for i, st in enumerate(seq):
                if not (isinstance(st, ast.Expr) and isinstance(st.value, ast.Call)):
                    continue
                outer = st.value
                hits = [(j, a) for j, a in enumerate(outer.args) if isinstance(a, ast.Call) and ((isinstance(a.func, ast.Attribute) and a.func.attr in two_way) or
                                                                                           (isinstance(a.func, ast.Name) and a.func.id in two_way))]
                if len(hits) != 1:
                    continue
                j, hc = hits[0]
                name = hc.func.attr if isinstance(hc.func, ast.Attribute) else hc.func.id
                if name in names_in_ref:
                    continue
                q, fn, cond, a_expr, mid, b_expr, kind = two_way[name]
                if fn is caller or not _simple_value(outer.func) or not all(_simple_value(x) for k, x in enumerate(outer.args) if k != j) or outer.keywords:
                    continue
                mk = "self" if kind == "self" else "cls" if kind == "cls" and isinstance(hc.func, ast.Attribute) else None
                mapping = _bind(fn, hc, mk)
                if mapping is None:
                    continue

                def inst(e):
                    return _relocate(_Subst(mapping).visit(copy.deepcopy(e)), hc)

                def with_arg(e):
                    c2 = copy.deepcopy(outer)
                    c2.args[j] = e
                    return ast.copy_location(ast.Expr(value=c2), st)
                new_if = ast.If(test=inst(cond), body=[with_arg(inst(a_expr))], orelse=[inst(x) for x in mid] + [with_arg(inst(b_expr))])
                seq[i] = ast.copy_location(new_if, st)
                ast.fix_missing_locations(seq[i])
                n += 1
    if n:
        for name, (q, fn, *_rest) in two_way.items():
            refs = sum(1 for node in ast.walk(tree) if (isinstance(node, ast.Attribute) and node.attr == name) or (isinstance(node, ast.Name) and node.id == name and isinstance(node.ctx, ast.Load)))
            if refs == 0:
                for parent in ast.walk(tree):
                    seq = getattr(parent, "body", None)
                    if isinstance(seq, list) and fn in seq:
                        seq.remove(fn)
    return n


def inline_helpers(tree, ref_units):
    """ref_units: set of unit qualnames (within the module) of the reference"""
    from .alpha import units
    us = units(tree)
    new = {}
    for q, fn in us:
        if q in ref_units or "#" in q:
            continue
        if fn.decorator_list and not all(isinstance(d, ast.Name) and d.id in ("staticmethod", "classmethod") for d in fn.decorator_list):
            continue
        sl = _straight_line(fn)
        if sl is None:
            continue
        kind = "function"
        if "." in q:
            decs = {d.id for d in fn.decorator_list if isinstance(d, ast.Name)}
            kind = "static" if "staticmethod" in decs else "cls" if "classmethod" in decs else "self"
        new[q] = (fn, sl, kind)
    # helpers of the shape  `if c: return A` ; <straight-line statements> ; `return B`   (not expressible as one expression because of the statements)
    two_way = {}
    for q, fn in us:
        if q in ref_units or "#" in q or q in new:
            continue
        if fn.decorator_list and not all(isinstance(d, ast.Name) and d.id in ("staticmethod", "classmethod") for d in fn.decorator_list):
            continue
        body = list(fn.body)
        if body and isinstance(body[0], ast.Expr) and isinstance(body[0].value, ast.Constant) and isinstance(body[0].value.value, str):
            body = body[1:]
        if len(body) >= 2 and isinstance(body[0], ast.If) and not body[0].orelse and len(body[0].body) == 1 and isinstance(body[0].body[0], ast.Return) and \
                body[0].body[0].value is not None and isinstance(body[-1], ast.Return) and body[-1].value is not None and \
                not any(isinstance(n, (ast.Return, ast.Yield, ast.YieldFrom, ast.Await)) or isinstance(n, _FUNC + (ast.ClassDef,)) for st in body[1:-1] for n in ast.walk(st)):
            kind = "function"
            if "." in q:
                decs = {d.id for d in fn.decorator_list if isinstance(d, ast.Name)}
                kind = "static" if "staticmethod" in decs else "cls" if "classmethod" in decs else "self"
            two_way[q.split(".")[-1]] = (q, fn, body[0].test, body[0].body[0].value, body[1:-1], body[-1].value, kind)
    n_dist = _distribute(tree, us, two_way, ref_units) if two_way else 0
    if not new:
        return n_dist
    by_name = {}
    for q, v in new.items():
        by_name.setdefault(q.split(".")[-1], []).append((q, v))
    # a name that is also the name of a reference unit (or of two new helpers) is ambiguous: leave it alone
    names_in_ref = {q.split(".")[-1].split("#")[0] for q in ref_units}
    by_name = {k: v[0] for k, v in by_name.items() if len(v) == 1 and k not in names_in_ref}
    if not by_name:
        return 0
    n_inlined = 0
    remaining_refs = {k: 0 for k in by_name}

    def target_of(call):
        f = call.func
        if isinstance(f, ast.Name) and f.id in by_name and by_name[f.id][1][2] == "function":
            return f.id
        if isinstance(f, ast.Attribute) and f.attr in by_name:
            q, (fn, sl, kind) = by_name[f.attr]
            if kind == "function":
                return None
            if isinstance(f.value, ast.Name) and (f.value.id in ("self", "cls") or f.value.id == q.split(".")[0]):
                return f.attr
            if kind == "self" and _simple_value(f.value):
                return f.attr
        return None

    def expand(call, caller_fn, is_await, targets=None):
        name = target_of(call)
        if name is None:
            return None
        q, (fn, (body, ret), kind) = by_name[name]
        if isinstance(fn, ast.AsyncFunctionDef) != bool(is_await):
            return None
        if fn is caller_fn:
            return None
        mk = "self" if kind == "self" else "cls" if kind == "cls" else None
        if kind in ("static", "cls") and isinstance(call.func, ast.Attribute):
            mk = "cls" if kind == "cls" else None
        mapping = _bind(fn, call, mk)
        if mapping is None:
            return None
        # an argument that reads an attribute some function stores (MUTABLE_ATTRS) and whose parameter is read more than once is evaluated ONCE, as the call
        # did: it is bound to the parameter's name in front of the body instead of being substituted at every read
        prelude = []
        reads_ = {}
        for st_ in body + ([ast.Expr(value=ret)] if ret is not None else []):
            for x in ast.walk(st_):
                if isinstance(x, ast.Name) and isinstance(x.ctx, ast.Load):
                    reads_[x.id] = reads_.get(x.id, 0) + 1
        for p_, v_ in list(mapping.items()):
            attrs_ = {x.attr for x in ast.walk(v_) if isinstance(x, ast.Attribute)}
            if attrs_ and reads_.get(p_, 0) > 1 and ("*" in MUTABLE_ATTRS or attrs_ & MUTABLE_ATTRS) and not (mk in ("self", "cls") and v_ is mapping.get(fn.args.args[0].arg)):
                if caller_fn is not None and p_ in _bound_names(caller_fn) and not _dead_at(caller_fn, call, p_):
                    return None
                prelude.append(ast.Assign(targets=[ast.Name(id=p_, ctx=ast.Store())], value=copy.deepcopy(v_), type_comment=None))
                del mapping[p_]
        # parameters that the helper rebinds cannot be substituted
        stored = {x.id for st in body for x in ast.walk(st) if isinstance(x, ast.Name) and isinstance(x.ctx, (ast.Store, ast.Del))}
        rebound = stored & set(mapping)
        if rebound:
            # a parameter the helper rebinds: fine when the argument is the caller's variable of the same name and the caller does not read it afterwards
            if not all(isinstance(mapping[p_], ast.Name) and mapping[p_].id == p_ and (caller_fn is None or _dead_at(caller_fn, call, p_)) for p_ in rebound):
                return None
        # `a, b = helper(…)` where the helper ends in `return x, y`: the helper's x, y ARE the caller's a, b
        unify = {}
        if targets is not None and ret is not None:
            tg = targets.elts if isinstance(targets, ast.Tuple) else [targets]
            rv = ret.elts if isinstance(ret, ast.Tuple) else [ret]
            if len(tg) == len(rv) and all(isinstance(x, ast.Name) for x in tg) and all(isinstance(x, ast.Name) and x.id in stored for x in rv) and \
                    len({x.id for x in rv}) == len(rv):
                unify = {r_.id: t_.id for r_, t_ in zip(rv, tg)}
                caller_other = (_bound_names(caller_fn) if caller_fn is not None else set())
                # the caller must not use those names for anything else before the call; accept only when each target is bound exactly once in the caller
                cnt = {}
                for x in ast.walk(caller_fn):
                    if isinstance(x, ast.Name) and isinstance(x.ctx, (ast.Store, ast.Del)):
                        cnt[x.id] = cnt.get(x.id, 0) + 1
                if any(cnt.get(t, 0) != 1 for t in unify.values()) or (set(unify.values()) - set(unify)) & stored:
                    unify = {}
        # helper locals must not collide with names of the caller
        clash = (stored - set(unify)) & (_bound_names(caller_fn) if caller_fn is not None else set())
        if clash and caller_fn is not None:
            clash = {v for v in clash if not _dead_at(caller_fn, call, v)}
        ren = {x: ast.Name(id=f"{x}__{name}", ctx=ast.Load()) for x in clash}
        new_body = [_relocate(ast.fix_missing_locations(ast.copy_location(a_, call)), call) for a_ in prelude]
        for st in body:
            st2 = copy.deepcopy(st)
            if unify:
                for x in ast.walk(st2):
                    if isinstance(x, ast.Name) and x.id in unify:
                        x.id = unify[x.id]
            if ren:
                for x in ast.walk(st2):
                    if isinstance(x, ast.Name) and x.id in clash:
                        x.id = f"{x.id}__{name}"
            st2 = _Subst(mapping).visit(st2)
            new_body.append(_relocate(st2, call))
        r2 = None
        if ret is not None:
            r2 = copy.deepcopy(ret)
            if ren:
                for x in ast.walk(r2):
                    if isinstance(x, ast.Name) and x.id in clash:
                        x.id = f"{x.id}__{name}"
            r2 = _relocate(_Subst(mapping).visit(r2), call)
            if unify:
                r2 = "<unified>"
        return new_body, r2

    def enclosing_units():
        return [(q, fn) for q, fn in us]

    for cq, caller in enclosing_units():
        changed = True
        rounds = 0
        while changed and rounds < 6:
            changed = False
            rounds += 1
            for parent, field, seq in list(_blocks(caller)):
                for i, st in enumerate(seq):
                    # whole-statement forms
                    val, wrap = None, None
                    if isinstance(st, ast.Expr):
                        val, wrap = st.value, "expr"
                    elif isinstance(st, ast.Assign) and len(st.targets) == 1:
                        val, wrap = st.value, "assign"
                    elif isinstance(st, ast.Return) and st.value is not None:
                        val, wrap = st.value, "return"
                    is_await = isinstance(val, ast.Await)
                    call = val.value if is_await else val
                    if isinstance(call, ast.Call) and target_of(call) is not None:
                        ex = expand(call, caller, is_await, targets=st.targets[0] if wrap == "assign" else None)
                        if ex is not None:
                            body, ret = ex
                            tail = []
                            if isinstance(ret, str):
                                tail = []
                            elif wrap == "assign":
                                tail = [ast.copy_location(ast.Assign(targets=st.targets, value=ret if ret is not None else ast.Constant(value=None), type_comment=None), st)]
                            elif wrap == "return":
                                tail = [ast.copy_location(ast.Return(value=ret if ret is not None else ast.Constant(value=None)), st)]
                            elif ret is not None and not isinstance(ret, (ast.Constant, ast.Name)):
                                tail = [ast.copy_location(ast.Expr(value=ret), st)]
                            seq[i:i + 1] = body + tail or [ast.copy_location(ast.Pass(), st)]
                            n_inlined += 1
                            changed = True
                            break
                    # expression form: single-expression helpers anywhere inside the statement's own expressions
                    done = False
                    for sub in ast.walk(st):
                        if isinstance(sub, _SCOPES) and sub is not st:
                            continue
                        for fld, v in ast.iter_fields(sub):
                            items = v if isinstance(v, list) else [v]
                            for j, ch in enumerate(items):
                                aw = isinstance(ch, ast.Await) and isinstance(ch.value, ast.Call)
                                c = ch.value if aw else ch
                                if not (isinstance(c, ast.Call) and target_of(c) is not None):
                                    continue
                                ex = expand(c, caller, aw)
                                if ex is None or ex[0] or ex[1] is None or isinstance(ex[1], str):
                                    continue
                                if isinstance(v, list):
                                    v[j] = ex[1]
                                else:
                                    setattr(sub, fld, ex[1])
                                n_inlined += 1
                                done = changed = True
                                break
                            if done:
                                break
                        if done:
                            break
                    if done:
                        break
                if changed:
                    break
    # drop helpers that are no longer referenced
    for name, (q, (fn, sl, kind)) in by_name.items():
        refs = 0
        for node in ast.walk(tree):
            if node is fn:
                continue
            if isinstance(node, ast.Name) and node.id == name and isinstance(node.ctx, ast.Load):
                refs += 1
            elif isinstance(node, ast.Attribute) and node.attr == name:
                refs += 1
        inside = sum(1 for node in ast.walk(fn) if (isinstance(node, ast.Name) and node.id == name) or (isinstance(node, ast.Attribute) and node.attr == name))
        if refs - inside <= 0:
            for parent in ast.walk(tree):
                for field in ("body", "orelse"):
                    seq = getattr(parent, field, None)
                    if isinstance(seq, list) and fn in seq:
                        seq.remove(fn)
                        if not seq and field == "body":
                            seq.append(ast.copy_location(ast.Pass(), fn))
    return n_inlined


# ------------------------------------------------------------------------------------------------------------------ temporaries
def _header_exprs(st):
    """the expressions a compound statement evaluates BEFORE any nested statement runs (for a simple statement: all of it)"""
    if isinstance(st, (ast.If, ast.While)):
        return [st.test]
    if isinstance(st, (ast.For, ast.AsyncFor)):
        return [st.iter]
    if isinstance(st, (ast.With, ast.AsyncWith)):
        return [i.context_expr for i in st.items]
    if isinstance(st, (ast.Try, ast.FunctionDef, ast.AsyncFunctionDef, ast.ClassDef)):
        return []
    return [st]


def _elif_tests(st):
    """tests of an if / elif ladder: they are evaluated before any body of the ladder that does not leave"""
    out = []
    cur = st
    while isinstance(cur, ast.If):
        out.append(cur.test)
        if len(cur.orelse) == 1 and isinstance(cur.orelse[0], ast.If):
            cur = cur.orelse[0]
        else:
            break
    return out


MUTABLE_ATTRS = {"*"}      # set by the index: attribute names stored anywhere outside __init__ ("*": unknown — everything counts as mutable)
_TRUSTED_INTS = {"CDATA_SIG_LENGTH"}      # third-party names whose int-ness is part of the trusted base (coincurve.ecdsa: a buffer length)
INT_CONSTANTS = set()       # set by the index: upper-case names bound to int literals wherever the repo assigns them
PURE_NAMES = set()          # set by the index before normalisation: repo functions that are trivial getters under every definition of the name
_PURE_BUILTINS = {"len", "isinstance", "min", "max", "abs", "bool"}


def _pure_call(x):
    f = x.func
    name = f.id if isinstance(f, ast.Name) else f.attr if isinstance(f, ast.Attribute) else None
    if name is None or x.keywords:
        return False
    if isinstance(f, ast.Name):
        return name in _PURE_BUILTINS
    return name in PURE_NAMES and not x.args


def _impure(expr):
    """does evaluating expr call anything that is not a trivial getter / pure builtin?"""
    return any(isinstance(x, ast.Await) or (isinstance(x, ast.Call) and not _pure_call(x)) for x in ast.walk(expr))


def _calm_until_last(stmt, uses):
    """nothing impure is evaluated in `stmt` before the last of `uses` (source position; calls that contain a use run after it)"""
    if isinstance(stmt, ast.If):
        tests = _elif_tests(stmt)
        if all(any(u is x for t in tests for x in ast.walk(t)) for u in uses):
            # all reads are in the tests of the if / elif ladder: the arms' bodies do not run before a later test
            last = max((getattr(u, "lineno", 0), getattr(u, "col_offset", 0)) for u in uses)
            return not any((isinstance(x, ast.Await) or (isinstance(x, ast.Call) and not _pure_call(x))) and
                           (getattr(x, "lineno", 0), getattr(x, "col_offset", 0)) < last for t in tests for x in ast.walk(t))
    for c in ast.walk(stmt):
        for ch in ast.iter_child_nodes(c):
            ch._up = c
    anc = set()
    for u in uses:
        cur = u
        while cur is not stmt and hasattr(cur, "_up"):
            cur = cur._up
            anc.add(id(cur))
    last = max((getattr(u, "lineno", 0), getattr(u, "col_offset", 0)) for u in uses)
    for x in ast.walk(stmt):
        if (isinstance(x, ast.Await) or (isinstance(x, ast.Call) and not _pure_call(x))) and id(x) not in anc:
            if (getattr(x, "lineno", 0), getattr(x, "col_offset", 0)) < last:
                return False
    return True


def _evaluated_first(stmt, use):
    """no call / await of `stmt` is evaluated before the expression `use` (approximated by source position; calls that CONTAIN the use run after it)"""
    anc = set()
    for x in ast.walk(stmt):
        for c in ast.iter_child_nodes(x):
            c._up = x
    cur = use
    while cur is not stmt and hasattr(cur, "_up"):
        cur = cur._up
        anc.add(id(cur))
    pos = (getattr(use, "lineno", 0), getattr(use, "col_offset", 0))
    for x in ast.walk(stmt):
        if isinstance(x, (ast.Call, ast.Await)) and id(x) not in anc and x is not use:
            if (getattr(x, "lineno", 0), getattr(x, "col_offset", 0)) < pos:
                return False
    return True


def inline_temporaries(fn, ref_names, keep=()):
    """inline locals that the reference unit does not have; returns the number of temporaries removed"""
    removed = 0
    for sub in ast.walk(fn):
        if isinstance(sub, _FUNC) and sub is not fn and not any(isinstance(p, _FUNC) and p is not fn and p is not sub and any(x is sub for x in ast.walk(p)) for p in ast.walk(fn)):
            removed += inline_temporaries(sub, ref_names, keep)
    for _ in range(12):
        stores, loads = {}, {}
        for n in ast.walk(fn):
            if isinstance(n, ast.Name):
                (stores if isinstance(n.ctx, (ast.Store, ast.Del)) else loads).setdefault(n.id, []).append(n)
            elif isinstance(n, ast.arg):
                stores.setdefault(n.arg, []).append(n)
            elif isinstance(n, ast.ExceptHandler) and n.name:
                stores.setdefault(n.name, []).append(n)
        scoped = {x for n in ast.walk(fn) if isinstance(n, (ast.Global, ast.Nonlocal)) for x in n.names}
        nested_loads = {x.id for n in ast.walk(fn) if isinstance(n, _SCOPES) and n is not fn for x in ast.walk(n) if isinstance(x, ast.Name)}
        done = False
        for parent, field, seq in _blocks(fn):
            if isinstance(parent, _SCOPES) and parent is not fn:
                continue
            for i, st in enumerate(seq[:-1]):
                # `a, v = f()` ; `TARGET = v`   (v new, read nowhere else)   ->   `a, TARGET = f()`
                if isinstance(st, ast.Assign) and len(st.targets) == 1 and isinstance(st.targets[0], (ast.Tuple, ast.List)):
                    nxt = seq[i + 1]
                    if isinstance(nxt, ast.Assign) and len(nxt.targets) == 1 and isinstance(nxt.value, ast.Name):
                        v = nxt.value.id
                        elts = st.targets[0].elts
                        idx = [k for k, e in enumerate(elts) if isinstance(e, ast.Name) and e.id == v]
                        if v not in ref_names and v not in scoped and len(idx) == 1 and len(stores.get(v, ())) == 1 and len(loads.get(v, ())) == 1 and \
                                _simple_value(nxt.targets[0].value if isinstance(nxt.targets[0], (ast.Attribute, ast.Subscript)) else ast.Constant(value=0)):
                            tg = copy.deepcopy(nxt.targets[0])
                            elts[idx[0]] = tg
                            del seq[i + 1]
                            removed += 1
                            done = True
                            break
                if not (isinstance(st, ast.Assign) and len(st.targets) == 1 and isinstance(st.targets[0], ast.Name)):
                    continue
                v = st.targets[0].id
                if v in ref_names or v in keep or v in scoped or v in nested_loads or len(stores.get(v, ())) != 1 or not loads.get(v):
                    continue
                if any(isinstance(x, (ast.Await, ast.Yield, ast.YieldFrom, ast.NamedExpr, ast.Lambda)) for x in ast.walk(st.value)):
                    if not isinstance(st.value, ast.Await):
                        continue
                uses = loads[v]
                nxt = seq[i + 1]
                in_next_header = [u for u in uses if any(u is x for h in _header_exprs(nxt) for x in ast.walk(h))]
                ladder = [u for u in uses if any(u is x for t in _elif_tests(nxt) for x in ast.walk(t))] if isinstance(nxt, ast.If) else []
                ok = False
                in_next = [u for u in uses if any(u is x for x in ast.walk(nxt))]
                calm = not any(isinstance(x, (ast.Await, ast.For, ast.AsyncFor, ast.While, ast.Yield, ast.YieldFrom)) or isinstance(x, _SCOPES) for x in ast.walk(nxt))
                has_call = any(isinstance(x, (ast.Call, ast.Await)) for x in ast.walk(st.value))
                if len(in_next) == len(uses) and calm and not any(isinstance(x, ast.Await) for x in ast.walk(st.value)) and \
                        (not has_call or (len(uses) == 1 and _evaluated_first(nxt, uses[0])) or (not _impure(st.value) and _calm_until_last(nxt, uses))):
                    # read only inside the directly following, loop- and await-free statement: any number of reads for a call-free value; a value that
                    # calls something is evaluated once and in its place — one read, and nothing else is called before it in that statement; a value that
                    # only calls trivial getters / pure builtins may be read several times when nothing impure runs before the last read
                    ok = True
                elif len(in_next_header) == len(uses) and (len(uses) == 1 or _simple_value(st.value) or not any(isinstance(x, (ast.Call, ast.Await)) for x in ast.walk(st.value))):
                    ok = True
                elif ladder and len(ladder) == len(uses) and not any(isinstance(x, (ast.Call, ast.Await)) for x in ast.walk(st.value)):
                    ok = True                         # read only by the tests of the following if / elif ladder
                elif _pure_local(st.value) or (not any(isinstance(x, (ast.Call, ast.Await, ast.Subscript)) for x in ast.walk(st.value)) and _simple_value(st.value)):
                    # a value made of local names / literals / operators (or a plain attribute chain): any later read in the same block (or nested in it)
                    rest = seq[i + 1:]
                    inside = [u for u in uses if any(u is x for s2 in rest for x in ast.walk(s2))]
                    free = {x.id for x in ast.walk(st.value) if isinstance(x, ast.Name)}
                    rebound = any(isinstance(x, ast.Name) and isinstance(x.ctx, (ast.Store, ast.Del)) and x.id in free for s2 in rest for x in ast.walk(s2))
                    attr = any(isinstance(x, ast.Attribute) for x in ast.walk(st.value))
                    if attr:
                        # attribute values may change under awaits or assignments to that attribute: accept reads in the rest of the block when neither occurs there
                        attrs = {x.attr for x in ast.walk(st.value) if isinstance(x, ast.Attribute)}
                        stored_attr = any(isinstance(x, ast.Attribute) and isinstance(x.ctx, (ast.Store, ast.Del)) and x.attr in attrs for x in ast.walk(fn))
                        awaits = any(isinstance(x, (ast.Await, ast.Yield, ast.YieldFrom)) for s2 in rest for x in ast.walk(s2))
                        # ... or under a call that stores it: an attribute that some function of the repo stores outside __init__ is read where the reference
                        # reads it unless nothing impure runs between the binding and the last read
                        volatile = "*" in MUTABLE_ATTRS or bool(attrs & MUTABLE_ATTRS)
                        quiet = True
                        if volatile:
                            last_stmt = max((k for k, s2 in enumerate(rest) if any(any(u is x for x in ast.walk(s2)) for u in uses)), default=-1)
                            quiet = all(not _impure(s2) for s2 in rest[:last_stmt]) and (last_stmt < 0 or _calm_until_last(rest[last_stmt], [u for u in uses if any(u is x for x in ast.walk(rest[last_stmt]))]))
                        ok = len(inside) == len(uses) and not rebound and not stored_attr and not awaits and quiet
                    else:
                        ok = len(inside) == len(uses) and not rebound
                if not ok:
                    continue
                sub = _Subst({v: st.value})
                for j in range(i + 1, len(seq)):
                    seq[j] = sub.visit(seq[j])
                    fold_inlined(seq[j])
                del seq[i]
                removed += 1
                done = True
                break
            if done:
                break
        if not done:
            break
    return removed


# ------------------------------------------------------------------------------------------------------------------ entry point
def apply(tree, ref):
    """ref: the reference description of this module (lbsa/refnames.json).  Returns a summary dict of what was made transparent."""
    out = {}
    assigned = set(ref.get("__assigned__", ()))
    ref_units = {q for q in ref if not q.startswith("__")}
    if "__assigned__" in ref:
        n = inline_constants(tree, assigned)
        if n:
            out["<constants inlined>"] = n
    n = inline_helpers(tree, ref_units)
    if n:
        out["<helper calls inlined>"] = n
    n = renest(tree, ref_units)
    if n:
        out["<callbacks nested again>"] = n
    return out


# ------------------------------------------------------------------------------------------------------------------ idioms
_RE_FUNCS = ("sub", "subn", "match", "search", "fullmatch", "findall", "finditer", "split")


_SCALAR_FUNCS = {"len", "str", "int", "repr", "hex", "bool", "float", "abs", "round", "sum", "min", "max", "ord", "chr"}
_SCALAR_METHODS = {"decode", "encode", "hex", "join", "format", "lower", "upper", "strip", "lstrip", "rstrip", "hexdigest", "digest"}


def _scalar_expr(e):
    """an expression that cannot evaluate to a tuple"""
    if isinstance(e, ast.Constant):
        return not isinstance(e.value, tuple)
    if isinstance(e, ast.JoinedStr):
        return True
    if isinstance(e, ast.Name):
        return e.id in INT_CONSTANTS or e.id in _TRUSTED_INTS
    if isinstance(e, ast.Call):
        f = e.func
        return (isinstance(f, ast.Name) and f.id in _SCALAR_FUNCS) or (isinstance(f, ast.Attribute) and f.attr in _SCALAR_METHODS)
    return False


def _int_expr(e):
    if isinstance(e, ast.Constant):
        return isinstance(e.value, int) and not isinstance(e.value, bool)
    if isinstance(e, ast.Name):
        return e.id in INT_CONSTANTS or e.id in _TRUSTED_INTS
    return isinstance(e, ast.Call) and isinstance(e.func, ast.Name) and e.func.id in ("len", "int", "ord")


class _Idioms(ast.NodeTransformer):
    """rewrite each occurrence of a library idiom into its equivalent sibling form (both directions are tried by the caller through the skeleton oracle):
         P.sub(r, s) <-> re.sub(P, r, s)  (and match / search / fullmatch / findall / split)      '{}…'.format(a, b) / 'a%sb' % x <-> f'…'
         bytes(N) <-> bytes((0,) * N)                                                             any(P for x in X) as a return <-> the early-return loop"""

    def __init__(self, direction):
        self.d = direction
        self.n = 0

    def visit_Call(self, node):
        self.generic_visit(node)
        f = node.func
        if self.d == 0 and isinstance(f, ast.Attribute) and f.attr in _RE_FUNCS and isinstance(f.value, (ast.Name, ast.Attribute)) and not (isinstance(f.value, ast.Name) and f.value.id == "re") \
                and not node.keywords and 1 <= len(node.args) <= 3 and (isinstance(f.value, ast.Name) and f.value.id.isupper() or isinstance(f.value, ast.Attribute) and f.value.attr.isupper()):
            self.n += 1
            return ast.copy_location(ast.Call(func=ast.Attribute(value=ast.Name(id="re", ctx=ast.Load()), attr=f.attr, ctx=ast.Load()), args=[f.value] + node.args, keywords=[]), node)
        if self.d == 1 and isinstance(f, ast.Attribute) and f.attr in _RE_FUNCS and isinstance(f.value, ast.Name) and f.value.id == "re" and not node.keywords and len(node.args) >= 2 and \
                isinstance(node.args[0], (ast.Name, ast.Attribute)):
            self.n += 1
            return ast.copy_location(ast.Call(func=ast.Attribute(value=node.args[0], attr=f.attr, ctx=ast.Load()), args=node.args[1:], keywords=[]), node)
        # '{}.tmp.{}'.format(a, b)  ->  f-string
        if self.d == 0 and isinstance(f, ast.Attribute) and f.attr == "format" and isinstance(f.value, ast.Constant) and isinstance(f.value.value, str) and not node.keywords and \
                not any(isinstance(a, ast.Starred) for a in node.args):
            parts = f.value.value.split("{}")
            if len(parts) == len(node.args) + 1 and "{" not in "".join(parts) and "}" not in "".join(parts):
                vals = []
                for i, p_ in enumerate(parts):
                    if p_:
                        vals.append(ast.Constant(value=p_))
                    if i < len(node.args):
                        vals.append(ast.FormattedValue(value=node.args[i], conversion=-1, format_spec=None))
                self.n += 1
                return ast.copy_location(ast.JoinedStr(values=vals), node)
        if self.d == 0 and isinstance(f, ast.Name) and f.id == "bytes" and len(node.args) == 1 and isinstance(node.args[0], ast.BinOp) and isinstance(node.args[0].op, ast.Mult) and \
                isinstance(node.args[0].left, ast.Tuple) and len(node.args[0].left.elts) == 1 and isinstance(node.args[0].left.elts[0], ast.Constant) and node.args[0].left.elts[0].value == 0:
            self.n += 1
            return ast.copy_location(ast.Call(func=f, args=[node.args[0].right], keywords=[]), node)
        if self.d == 1 and isinstance(f, ast.Name) and f.id == "bytes" and len(node.args) == 1 and isinstance(node.args[0], ast.Constant) and type(node.args[0].value) is int and not node.keywords:
            self.n += 1
            return ast.copy_location(ast.Call(func=f, args=[ast.BinOp(left=ast.Tuple(elts=[ast.Constant(value=0)], ctx=ast.Load()), op=ast.Mult(), right=node.args[0])], keywords=[]), node)
        return node

    def visit_BinOp(self, node):
        self.generic_visit(node)
        if self.d == 0 and isinstance(node.op, ast.Mod) and isinstance(node.left, ast.Constant) and isinstance(node.left.value, str) and "%(" not in node.left.value:
            import re as _re
            specs = _re.findall(r"%[sd%]|%[^sd%]", node.left.value)
            args = node.right.elts if isinstance(node.right, ast.Tuple) else [node.right]
            # `fmt % x` with a single operand that may be a tuple at run time is NOT `f'{x}'`; `%d` truncates a float and refuses text where `{}` does neither
            sound = (isinstance(node.right, ast.Tuple) or _scalar_expr(node.right)) and all(sp != "%d" or _int_expr(a_) for sp, a_ in zip(specs, args))
            if all(s_ in ("%s", "%d") for s_ in specs) and len(specs) == len(args) and sound:
                parts = _re.split(r"%[sd]", node.left.value)
                vals = []
                for i, p_ in enumerate(parts):
                    if p_:
                        vals.append(ast.Constant(value=p_))
                    if i < len(args):
                        vals.append(ast.FormattedValue(value=args[i], conversion=-1, format_spec=None))
                self.n += 1
                return ast.copy_location(ast.JoinedStr(values=vals), node)
        return node

    def visit_JoinedStr(self, node):
        self.generic_visit(node)
        if self.d in (2, 3) and all(isinstance(v, ast.Constant) or (isinstance(v, ast.FormattedValue) and v.conversion == -1 and v.format_spec is None) for v in node.values):
            spec = "%s" if self.d == 2 else "%d"
            if not any(isinstance(v, ast.Constant) and "%" in v.value for v in node.values):
                fmt = "".join(v.value if isinstance(v, ast.Constant) else spec for v in node.values)
                args = [v.value for v in node.values if isinstance(v, ast.FormattedValue)]
                if args and (len(args) > 1 or _scalar_expr(args[0])) and (self.d == 2 or all(_int_expr(a_) for a_ in args)):
                    self.n += 1
                    right = args[0] if len(args) == 1 else ast.Tuple(elts=args, ctx=ast.Load())
                    return ast.copy_location(ast.BinOp(left=ast.Constant(value=fmt), op=ast.Mod(), right=right), node)
        if self.d == 1 and all(isinstance(v, ast.Constant) or (isinstance(v, ast.FormattedValue) and v.conversion == -1 and v.format_spec is None) for v in node.values):
            fmt = "".join(v.value if isinstance(v, ast.Constant) else "{}" for v in node.values)
            args = [v.value for v in node.values if isinstance(v, ast.FormattedValue)]
            if "{" not in fmt.replace("{}", "") and args:
                self.n += 1
                return ast.copy_location(ast.Call(func=ast.Attribute(value=ast.Constant(value=fmt), attr="format", ctx=ast.Load()), args=args, keywords=[]), node)
        return node


def _stmt_idioms(fn, direction):
    """statement-level siblings: `s.discard(e)` <-> `if e in s: s.remove(e)`;  `return any(P for x in X)` <-> `for x in X: if P: return True` ; `return False`"""
    n = 0
    for parent, field, seq in list(_blocks(fn)):
        i = 0
        while i < len(seq):
            st = seq[i]
            if direction == 0 and isinstance(st, ast.Expr) and isinstance(st.value, ast.Call) and isinstance(st.value.func, ast.Attribute) and st.value.func.attr == "discard" and \
                    len(st.value.args) == 1 and not st.value.keywords and _simple_value(st.value.func.value) and _simple_value(st.value.args[0]):
                s_, e_ = st.value.func.value, st.value.args[0]
                rm = ast.Expr(value=ast.Call(func=ast.Attribute(value=copy.deepcopy(s_), attr="remove", ctx=ast.Load()), args=[copy.deepcopy(e_)], keywords=[]))
                seq[i] = ast.copy_location(ast.If(test=ast.Compare(left=e_, ops=[ast.In()], comparators=[s_]), body=[ast.copy_location(rm, st)], orelse=[]), st)
                ast.fix_missing_locations(seq[i])
                n += 1
            elif direction == 0 and isinstance(st, ast.Return) and isinstance(st.value, ast.Call) and isinstance(st.value.func, ast.Name) and st.value.func.id == "any" and \
                    len(st.value.args) == 1 and isinstance(st.value.args[0], ast.GeneratorExp) and len(st.value.args[0].generators) == 1 and not st.value.args[0].generators[0].ifs:
                g = st.value.args[0]
                loop = ast.For(target=g.generators[0].target, iter=g.generators[0].iter, orelse=[], type_comment=None,
                               body=[ast.If(test=g.elt, body=[ast.Return(value=ast.Constant(value=True))], orelse=[])])
                for x in ast.walk(loop):
                    if isinstance(x, ast.Name) and isinstance(x.ctx, ast.Load) and x is loop.target:
                        x.ctx = ast.Store()
                for x in ast.walk(loop.target):
                    if isinstance(x, ast.Name):
                        x.ctx = ast.Store()
                seq[i:i + 1] = [ast.copy_location(loop, st), ast.copy_location(ast.Return(value=ast.Constant(value=False)), st)]
                ast.fix_missing_locations(seq[i])
                ast.fix_missing_locations(seq[i + 1])
                n += 1
                i += 1
            i += 1
    return n


def _comprehension_to_loop(fn):
    """`L = [E for t in X if C]` -> `L = []` ; `for t in X: if C: L.append(E)`      `D = {K: V for …}` -> `D = {}` ; loop with `D[K] = V`   (single generator)"""
    n = 0
    for parent, field, seq in list(_blocks(fn)):
        i = 0
        while i < len(seq):
            st = seq[i]
            if isinstance(st, ast.Assign) and len(st.targets) == 1 and isinstance(st.targets[0], ast.Name) and isinstance(st.value, (ast.ListComp, ast.DictComp, ast.SetComp)) and \
                    len(st.value.generators) == 1 and not st.value.generators[0].is_async:
                c = st.value
                g = c.generators[0]
                tgt = st.targets[0].id
                if isinstance(c, ast.ListComp):
                    init = ast.List(elts=[], ctx=ast.Load())
                    inner = ast.Expr(value=ast.Call(func=ast.Attribute(value=ast.Name(id=tgt, ctx=ast.Load()), attr="append", ctx=ast.Load()), args=[c.elt], keywords=[]))
                elif isinstance(c, ast.SetComp):
                    init = ast.Call(func=ast.Name(id="set", ctx=ast.Load()), args=[], keywords=[])
                    inner = ast.Expr(value=ast.Call(func=ast.Attribute(value=ast.Name(id=tgt, ctx=ast.Load()), attr="add", ctx=ast.Load()), args=[c.elt], keywords=[]))
                else:
                    init = ast.Dict(keys=[], values=[])
                    inner = ast.Assign(targets=[ast.Subscript(value=ast.Name(id=tgt, ctx=ast.Load()), slice=c.key, ctx=ast.Store())], value=c.value, type_comment=None)
                body = [inner]
                for cond in reversed(g.ifs):
                    body = [ast.If(test=cond, body=body, orelse=[])]
                loop = ast.For(target=g.target, iter=g.iter, body=body, orelse=[], type_comment=None)
                a = ast.copy_location(ast.Assign(targets=[ast.Name(id=tgt, ctx=ast.Store())], value=init, type_comment=None), st)
                seq[i:i + 1] = [a, ast.copy_location(loop, st)]
                ast.fix_missing_locations(seq[i])
                ast.fix_missing_locations(seq[i + 1])
                n += 1
                i += 1
            i += 1
    return n


def _loop_to_comprehension(fn):
    """the inverse of _comprehension_to_loop for the plain shapes `L = []` ; `for t in X: [if C:] L.append(E)`"""
    n = 0
    for parent, field, seq in list(_blocks(fn)):
        i = 0
        while i + 1 < len(seq):
            a, lp = seq[i], seq[i + 1]
            if isinstance(a, ast.Assign) and len(a.targets) == 1 and isinstance(a.targets[0], ast.Name) and isinstance(lp, ast.For) and not lp.orelse and len(lp.body) == 1:
                tgt = a.targets[0].id
                body = lp.body[0]
                ifs = []
                while isinstance(body, ast.If) and not body.orelse and len(body.body) == 1:
                    ifs.append(body.test)
                    body = body.body[0]
                new = None
                if isinstance(a.value, ast.List) and not a.value.elts and isinstance(body, ast.Expr) and isinstance(body.value, ast.Call) and isinstance(body.value.func, ast.Attribute) and \
                        body.value.func.attr == "append" and isinstance(body.value.func.value, ast.Name) and body.value.func.value.id == tgt and len(body.value.args) == 1:
                    new = ast.ListComp(elt=body.value.args[0], generators=[ast.comprehension(target=lp.target, iter=lp.iter, ifs=ifs, is_async=0)])
                elif isinstance(a.value, ast.Dict) and not a.value.keys and isinstance(body, ast.Assign) and len(body.targets) == 1 and isinstance(body.targets[0], ast.Subscript) and \
                        isinstance(body.targets[0].value, ast.Name) and body.targets[0].value.id == tgt:
                    new = ast.DictComp(key=body.targets[0].slice, value=body.value, generators=[ast.comprehension(target=lp.target, iter=lp.iter, ifs=ifs, is_async=0)])
                if new is not None and not any(isinstance(x, ast.Name) and x.id == tgt for x in ast.walk(new)):
                    seq[i:i + 2] = [ast.copy_location(ast.Assign(targets=a.targets, value=new, type_comment=None), a)]
                    ast.fix_missing_locations(seq[i])
                    n += 1
            i += 1
    return n


def _split_tuple_assigns(fn):
    """`a, b = X, Y` -> `a = X` ; `b = Y` when Y does not read a (and no target is read by a later value)"""
    n = 0
    for parent, field, seq in list(_blocks(fn)):
        i = 0
        while i < len(seq):
            st = seq[i]
            if isinstance(st, ast.Assign) and len(st.targets) == 1 and isinstance(st.targets[0], ast.Tuple) and isinstance(st.value, ast.Tuple) and \
                    len(st.targets[0].elts) == len(st.value.elts) and all(isinstance(t, ast.Name) for t in st.targets[0].elts):
                tg = [t.id for t in st.targets[0].elts]
                ok = True
                for k, v in enumerate(st.value.elts):
                    reads = {x.id for x in ast.walk(v) if isinstance(x, ast.Name)}
                    if reads & set(tg[:k]):
                        ok = False
                if ok:
                    new = [ast.copy_location(ast.Assign(targets=[t], value=v, type_comment=None), st) for t, v in zip(st.targets[0].elts, st.value.elts)]
                    seq[i:i + 1] = new
                    n += 1
                    i += len(new) - 1
            i += 1
    return n


def _merge_assigns(fn):
    """consecutive `a = X` ; `b = Y` ; … -> `a, b, … = X, Y, …` for maximal runs of plain assignments to names whose values do not read an earlier target of the run"""
    n = 0
    for parent, field, seq in list(_blocks(fn)):
        i = 0
        while i < len(seq):
            run = []
            j = i
            while j < len(seq) and isinstance(seq[j], ast.Assign) and len(seq[j].targets) == 1 and isinstance(seq[j].targets[0], ast.Name):
                reads = {x.id for x in ast.walk(seq[j].value) if isinstance(x, ast.Name)}
                if reads & {s_.targets[0].id for s_ in run}:
                    break
                run.append(seq[j])
                j += 1
            if len(run) >= 2:
                tup = ast.Assign(targets=[ast.Tuple(elts=[s_.targets[0] for s_ in run], ctx=ast.Store())], value=ast.Tuple(elts=[s_.value for s_ in run], ctx=ast.Load()), type_comment=None)
                seq[i:j] = [ast.copy_location(tup, run[0])]
                ast.fix_missing_locations(seq[i])
                n += 1
            i += 1
    return n


def try_idioms(fn, names_of, skeleton_of, want_skeleton, sigs=None, owner_class=None):
    """if rewriting the library idioms of `fn` into their sibling forms makes the unit structurally identical to the reference unit, adopt the rewrite"""
    from .alpha import _Positional
    steps = []
    for direction in (0, 1, 2, 3):
        steps.append(("idiom", direction))
    steps += [("comp2loop", 0), ("loop2comp", 0), ("split", 0), ("merge", 0), ("positional", 0), ("positional", 1)]
    # single steps first, then positional combined with each (keyword spelling is the commonest companion of another edit)
    plans = [[s_] for s_ in steps] + [[("positional", d), s_] for d in (0, 1) for s_ in steps if s_[0] != "positional"]
    for plan in plans:
        c = copy.deepcopy(fn)
        k = 0
        for kind, direction in plan:
            if kind == "idiom":
                tr = _Idioms(direction)
                c = tr.visit(c)
                k += tr.n + _stmt_idioms(c, direction)
            elif kind == "comp2loop":
                k += _comprehension_to_loop(c)
            elif kind == "loop2comp":
                k += _loop_to_comprehension(c)
            elif kind == "split":
                k += _split_tuple_assigns(c)
            elif kind == "merge":
                k += _merge_assigns(c)
            elif kind == "positional" and sigs:
                tr = _Positional(sigs, drop_first=bool(direction), owner_class=owner_class)
                c = tr.visit(c)
                k += tr.n
        if not k:
            continue
        ast.fix_missing_locations(c)
        if skeleton_of(c, names_of(c)) == want_skeleton:
            fn.body = c.body
            return k
    return 0


# ------------------------------------------------------------------------------------------------------------------ callbacks moved out of their function
def renest(tree, ref_units):
    """a function the reference module does not have, used exactly once, as a VALUE (a callback handed to a scheduler / executor / database runner), inside a unit the
    reference has: put it back as a nested function in front of that statement.  Arguments that travel with it and are the unit's own variables under the names of
    the function's parameters (`partial(self._m, peer)`, `run(self._m, txs, address)`, `lambda fut: self._m(writer, fut)`) become closure variables again."""
    from .alpha import units
    us = units(tree)
    new = {q: fn for q, fn in us if q not in ref_units and "#" not in q}
    if not new:
        return 0
    names_in_ref = {q.split(".")[-1].split("#")[0] for q in ref_units}
    n_done = 0
    for q, m in list(new.items()):
        name = q.split(".")[-1]
        if name in names_in_ref or any(isinstance(x, (ast.Yield, ast.YieldFrom)) for x in ast.walk(m)):
            continue
        decs = {d.id for d in m.decorator_list if isinstance(d, ast.Name)}
        if m.decorator_list and not decs <= {"staticmethod", "classmethod"} or "classmethod" in decs:
            continue
        is_method = "." in q and "staticmethod" not in decs
        a = m.args
        if a.vararg or a.kwarg or a.posonlyargs or a.kwonlyargs or a.defaults:
            continue
        params = [x.arg for x in a.args]
        if is_method:
            if not params or params[0] != "self":
                continue
            params = params[1:]
        # every reference to the function in the module
        refs = []
        parent_of = {}
        for node in ast.walk(tree):
            for ch in ast.iter_child_nodes(node):
                parent_of[id(ch)] = node
        for node in ast.walk(tree):
            if any(node is x for x in ast.walk(m)):
                continue
            if is_method and isinstance(node, ast.Attribute) and node.attr == name and isinstance(node.value, ast.Name) and node.value.id == "self":
                refs.append(node)
            elif not is_method and isinstance(node, ast.Name) and node.id == name and isinstance(node.ctx, ast.Load):
                refs.append(node)
            elif not is_method and isinstance(node, ast.Attribute) and node.attr == name:
                refs.append(node)
        if len(refs) != 1:
            continue
        v = refs[0]
        host = next(((uq, u) for uq, u in us if uq in ref_units and any(x is v for x in ast.walk(u))), None)
        if host is None:
            continue
        uq, u = host
        if is_method and (uq.rsplit(".", 1)[0] != q.rsplit(".", 1)[0]):
            continue
        p = parent_of.get(id(v))
        outer_names = {x.id for x in ast.walk(u) if isinstance(x, ast.Name)} | {x.arg for x in ast.walk(u) if isinstance(x, ast.arg)}
        keep_params = list(params)
        subst = {}
        replace_node, replacement_target = v, None

        def names_match(args, ps):
            return len(args) == len(ps) and all(isinstance(x, ast.Name) and x.id == p_ for x, p_ in zip(args, ps))
        if isinstance(p, ast.Call) and p.func is v:
            # a direct call is the business of inline_helpers — unless it is the whole body of a lambda
            lam = parent_of.get(id(p))
            if not (isinstance(lam, ast.Lambda) and lam.body is p) or p.keywords or len(p.args) != len(params):
                continue
            lam_params = [x.arg for x in lam.args.args]
            keep_params = []
            ok = True
            for prm, arg in zip(params, p.args):
                if isinstance(arg, ast.Name) and arg.id in lam_params:
                    keep_params.append(prm)
                elif isinstance(arg, ast.Name):
                    if arg.id != prm:
                        subst[prm] = arg
                else:
                    ok = False
            if not ok or [x for x in lam_params if x in [a_.id for a_ in p.args if isinstance(a_, ast.Name)]] != [a_.id for a_ in p.args if isinstance(a_, ast.Name) and a_.id in lam_params]:
                continue
            replace_node = lam
        elif isinstance(p, ast.Call) and isinstance(p.func, (ast.Name, ast.Attribute)) and (getattr(p.func, "id", None) == "partial" or getattr(p.func, "attr", None) == "partial") and \
                p.args and p.args[0] is v and not p.keywords:
            bound = p.args[1:]
            if names_match(bound, params[:len(bound)]):
                keep_params = params[len(bound):]
                replace_node = p
        elif isinstance(p, ast.Call) and any(x is v for x in p.args):
            j = next(i for i, x in enumerate(p.args) if x is v)
            trail = p.args[j + 1:]
            if trail and len(trail) < len(params) and names_match(trail, params[len(params) - len(trail):]):
                keep_params = params[:len(params) - len(trail)]
                del p.args[j + 1:]
        # a closure reads its variables when it RUNS, partial / an argument list binds them when the callback is handed over: the same only if the unit binds
        # each captured variable exactly once
        captured = [x for x in params if x not in keep_params and x not in subst] + [v_.id for v_ in subst.values() if isinstance(v_, ast.Name)]
        binds = {}
        for x in ast.walk(u):
            if isinstance(x, ast.Name) and isinstance(x.ctx, (ast.Store, ast.Del)):
                binds[x.id] = binds.get(x.id, 0) + 1
            elif isinstance(x, ast.arg):
                binds[x.arg] = binds.get(x.arg, 0) + 1
        if any(binds.get(c, 0) != 1 for c in captured):
            continue
        # build the nested function
        body = list(m.body)
        if body and isinstance(body[0], ast.Expr) and isinstance(body[0].value, ast.Constant) and isinstance(body[0].value.value, str) and len(body) > 1:
            body = body[1:]
        nested = type(m)(name=name, args=ast.arguments(posonlyargs=[], args=[ast.arg(arg=x, annotation=None) for x in keep_params], vararg=None, kwonlyargs=[], kw_defaults=[],
                                                        kwarg=None, defaults=[]), body=[_Subst(subst).visit(copy.deepcopy(x)) for x in body], decorator_list=[], returns=None, type_comment=None)
        if hasattr(nested, "type_params"):
            nested.type_params = []
        # place it before the statement that uses it
        placed = False
        for parent, field, seq in _blocks(u):
            for i, st in enumerate(seq):
                if any(x is replace_node for x in ast.walk(st)) and not any(any(x is replace_node for x in ast.walk(s2)) for s2 in ast.iter_child_nodes(st) if isinstance(s2, ast.stmt)):
                    ast.copy_location(nested, st)
                    ast.fix_missing_locations(nested)
                    _relocate(nested, st)
                    seq.insert(i, nested)
                    placed = True
                    break
            if placed:
                break
        if not placed:
            continue
        nm = ast.copy_location(ast.Name(id=name, ctx=ast.Load()), replace_node)
        pr = parent_of.get(id(replace_node))
        for fld, val in ast.iter_fields(pr):
            if isinstance(val, list):
                for k, ch in enumerate(val):
                    if ch is replace_node:
                        val[k] = nm
            elif val is replace_node:
                setattr(pr, fld, nm)
        # drop the moved-out definition
        for parent in ast.walk(tree):
            seq = getattr(parent, "body", None)
            if isinstance(seq, list) and m in seq:
                seq.remove(m)
                if not seq:
                    seq.append(ast.copy_location(ast.Pass(), m))
        n_done += 1
    return n_done
