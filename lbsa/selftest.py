"""Checker self-test (thorough tier): the rule instances of a property are exercised both ways on scratch variants of
the CURRENT tree — every `break` variant (one rule instance broken while the program still parses) must make the
property's check report a violation, every `twin` variant (behaviour-preserving rewrite of the same site) must leave
it silent.  Nothing here executes repository code: a variant is a textual substitution or a stored patch applied to a
symlink overlay of <repo>, which is then analysed by the same `lbsa.cli check <pid> --repo <overlay>` as the real tree.

Variants live in /verif/variants/<pid>.json ({"name", "subs": [[relpath, old, new], …], "expect": "VIOLATION"|"silent",
"rule": optional rule-id prefix that must be among the reports}); the confirmed seeded changes in
/verif/seeded/<pid>-m*/patch.diff are added as `break` variants.  A variant whose substitution target no longer occurs
exactly once in the tree under analysis (or whose patch no longer applies) is `inapplicable` and is reported, not failed.
"""
import concurrent.futures as cf
import json
import os
import re
import shutil
import subprocess
import sys
import tempfile

VERIF = os.path.dirname(os.path.dirname(os.path.abspath(__file__)))
JOBS = int(os.environ.get("LBSA_JOBS", "16"))


def load_variants(pid):
    out = []
    p = os.path.join(VERIF, "variants", f"{pid}.json")
    if os.path.exists(p):
        with open(p) as f:
            for v in json.load(f):
                out.append(dict(v, kind="subs"))
    sd = os.path.join(VERIF, "seeded")
    if os.path.isdir(sd):
        for d in sorted(os.listdir(sd)):
            if not d.startswith(pid + "-"):
                continue
            meta = {}
            mp = os.path.join(sd, d, "meta.json")
            if os.path.exists(mp):
                with open(mp) as f:
                    meta = json.load(f)
            if meta.get("status", "confirmed") != "confirmed":
                continue
            out.append({"name": f"seeded/{d}: {meta.get('title', '')}"[:160], "kind": "patch", "patch": os.path.join(sd, d, "patch.diff"),
                        "expect": meta.get("expect", {}).get(pid, "VIOLATION")})
    # behaviour-preserving edits written by independent agents acting as maintainers (benign/<ID>-bN): every check must stay silent on them.  The edits of
    # ALL properties that touch a file this property's check consults are used (an edit seeded against C01 also concerns C02, C10, C18 …).
    bd = os.path.join(VERIF, "benign")
    known = {}
    kp = os.path.join(bd, "KNOWN_ALARMS.json")
    if os.path.exists(kp):
        with open(kp) as f:
            known = json.load(f)
    consulted = set()
    ep = os.path.join(VERIF, "evidence", f"{pid}.json")
    if os.path.exists(ep):
        try:
            with open(ep) as f:
                consulted = set(json.load(f).get("coverage", {}).get("files_consulted", []))
        except (OSError, ValueError):
            consulted = set()
    if os.path.isdir(bd):
        for d in sorted(os.listdir(bd)):
            pp = os.path.join(bd, d, "patch.diff")
            if not os.path.exists(pp):
                continue
            mp2 = os.path.join(bd, d, "meta.json")
            try:
                with open(mp2) as f:
                    if json.load(f).get("status", "confirmed") != "confirmed":
                        continue
            except (OSError, ValueError):
                pass
            files = set(patch_files(pp))
            if not (d.startswith(pid + "-") or files & consulted):
                continue
            exp = "VIOLATION" if pid in known.get(d, {}).get("alarms", []) else "silent"
            out.append({"name": f"benign/{d}"[:160], "kind": "patch", "patch": pp, "expect": exp})
    return out


def overlay(repo, scratch, real_files=()):
    """scratch/<top> mirrors repo/<top> with symlinks; files in real_files are copied so that they can be edited"""
    real = set(real_files)
    for top in ("lbry", "scripts"):
        src = os.path.join(repo, top)
        if not os.path.isdir(src):
            continue
        for dirpath, dirnames, filenames in os.walk(src):
            dirnames[:] = [d for d in dirnames if d != "__pycache__"]
            rel = os.path.relpath(dirpath, repo)
            os.makedirs(os.path.join(scratch, rel), exist_ok=True)
            for fn in filenames:
                r = os.path.join(rel, fn)
                if r in real:
                    shutil.copyfile(os.path.join(repo, r), os.path.join(scratch, r))
                else:
                    os.symlink(os.path.join(dirpath, fn), os.path.join(scratch, r))


def patch_files(patch):
    out = []
    with open(patch) as f:
        for line in f:
            m = re.match(r"\+\+\+ b/(\S+)", line)
            if m:
                out.append(m.group(1))
    return out


def run_variant(args):
    pid, repo, v = args
    scratch = tempfile.mkdtemp(prefix="lbsa_st_")
    try:
        if v["kind"] == "subs":
            files = sorted({s[0] for s in v["subs"]})
            if any(not os.path.isfile(os.path.join(repo, f)) for f in files):
                return v, "inapplicable", "file missing"
            overlay(repo, scratch, files)
            for path, old, new in v["subs"]:
                p = os.path.join(scratch, path)
                with open(p) as f:
                    s = f.read()
                if s.count(old) != 1:
                    return v, "inapplicable", f"substitution target occurs {s.count(old)} times in {path}"
                with open(p, "w") as f:
                    f.write(s.replace(old, new))
        else:
            files = patch_files(v["patch"])
            overlay(repo, scratch, files)
            r = subprocess.run(["patch", "-p1", "-s", "-f", "-i", v["patch"]], cwd=scratch, capture_output=True, text=True)
            if r.returncode:
                return v, "inapplicable", "patch does not apply to this tree"
        env = dict(os.environ, PYTHONPATH=VERIF, LBSA_EVIDENCE_DIR=os.path.join(scratch, "evidence"), PYTHONDONTWRITEBYTECODE="1")
        r = subprocess.run([sys.executable, "-m", "lbsa.cli", "check", pid, "--repo", scratch, "--tier", "quick"], env=env, cwd=VERIF,
                           capture_output=True, text=True)
        tag = {0: "silent", 1: "VIOLATION", 2: "ANALYSIS-ERROR"}.get(r.returncode, f"exit {r.returncode}")
        rules = sorted({l.split()[0] for l in r.stdout.splitlines() if re.match(rf"{pid}-\S+ ", l)})
        detail = ", ".join(rules) if tag == "VIOLATION" else (r.stdout.strip().splitlines() or [""])[0][:200] if tag != "silent" else ""
        return v, tag, detail
    finally:
        shutil.rmtree(scratch, ignore_errors=True)


def run(pid, repo):
    vs = load_variants(pid)
    res = []
    with cf.ThreadPoolExecutor(max_workers=JOBS) as ex:
        for v, tag, detail in ex.map(run_variant, [(pid, repo, v) for v in vs]):
            res.append((v, tag, detail))
    passed, failed, skipped, rows = 0, [], [], []
    for v, tag, detail in res:
        row = {"variant": v["name"], "expect": v["expect"], "got": tag, "reports": detail}
        if tag == "inapplicable":
            skipped.append(v["name"])
        elif tag != v["expect"] or (tag == "VIOLATION" and v.get("rule") and not any(x.startswith(v["rule"]) for x in detail.split(", "))):
            failed.append(f"{v['name']}: expected {v['expect']}" + (f" by {v['rule']}" if v.get("rule") else "") + f", got {tag} {detail}")
        else:
            passed += 1
        rows.append(row)
    n_break = sum(1 for v in vs if v["expect"] == "VIOLATION")
    return {"selftest": {"passed": passed, "total": len(vs) - len(skipped), "failed": failed, "inapplicable": skipped,
                         "break_variants": n_break, "twin_variants": len(vs) - n_break, "rows": rows}}


if __name__ == "__main__":
    pid = sys.argv[1]
    out = run(pid, sys.argv[2] if len(sys.argv) > 2 else "/repo")["selftest"]
    for r in out["rows"]:
        flag = "ok " if r["got"] == r["expect"] else ("-- " if r["got"] == "inapplicable" else "!! ")
        print(f"{flag}{r['expect']:9s} {r['got']:14s} {r['variant'][:110]}  {r['reports'][:120]}")
    print(f"{pid}: {out['passed']}/{out['total']} ok, {len(out['failed'])} failed, {len(out['inapplicable'])} inapplicable")
