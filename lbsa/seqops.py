"""Abstract a codec function into the ordered sequence of stream operations it performs.

ops are tuples:
  ('w', kind, argtext)      stream.write_<kind>(arg) / stream.write(arg) (kind 'raw')
  ('r', kind, argtext)      stream.read_<kind>()     / stream.read(n)    (kind 'raw', argtext = n)
  ('call', text)            helper that receives the stream (txin.serialize_to(stream, …), Input.deserialize_from(stream))
  ('rep', itertext, [ops])  for / comprehension over itertext
  ('if', testtext, [ops_true], [ops_false])
Nested reads used as arguments (stream.read(stream.read_compact_size())) come out inner first.
"""
import ast

from . import terms

from .astutil import dotted, call_name, unparse


def extract(func_node, stream_names):
    names = set(stream_names)

    def is_stream(e):
        d = dotted(e)
        return d in names

    def expr_ops(e):
        """ops performed while evaluating expression e, in evaluation order"""
        out = []
        if e is None:
            return out
        if isinstance(e, (ast.ListComp, ast.GeneratorExp, ast.SetComp)):
            inner = expr_ops(e.elt)
            g = e.generators[0]
            pre = expr_ops(g.iter)
            out.extend(pre)
            if inner:
                out.append(("rep", unparse(g.iter), inner))
            return out
        if isinstance(e, ast.Call):
            f = e.func
            # arguments first
            for a in e.args:
                out.extend(expr_ops(a))
            for k in e.keywords:
                out.extend(expr_ops(k.value))
            if isinstance(f, ast.Attribute) and is_stream(f.value):
                nm = f.attr
                if nm.startswith("write_"):
                    out.append(("w", nm[6:], unparse(e.args[0]) if e.args else ""))
                elif nm == "write":
                    out.append(("w", "raw", unparse(e.args[0]) if e.args else ""))
                elif nm.startswith("read_"):
                    out.append(("r", nm[5:], ""))
                elif nm == "read":
                    out.append(("r", "raw", unparse(e.args[0]) if e.args else ""))
                return out
            if any(is_stream(a) for a in e.args):
                out.append(("call", unparse(f)))
                return out
            if isinstance(f, ast.Attribute):
                out = expr_ops(f.value) + out
            return out
        for c in ast.iter_child_nodes(e):
            if isinstance(c, ast.expr):
                out.extend(expr_ops(c))
        return out

    def stmts_ops(stmts):
        out = []
        for s in stmts:
            if isinstance(s, ast.If):
                t = expr_ops(s.test)
                out.extend(t)
                a, b = stmts_ops(s.body), stmts_ops(s.orelse)
                term, pol = terms.atom(s.test)
                if not pol:               # canonical orientation: the branch taken when the positive term holds comes first
                    a, b = b, a
                if a or b:
                    out.append(("if", term, a, b))
            elif isinstance(s, (ast.For, ast.AsyncFor)):
                out.extend(expr_ops(s.iter))
                body = stmts_ops(s.body)
                if body:
                    out.append(("rep", unparse(s.iter), body))
            elif isinstance(s, ast.While):
                body = stmts_ops(s.body)
                if body:
                    out.append(("rep", "while " + unparse(s.test), body))
            elif isinstance(s, (ast.With, ast.AsyncWith)):
                out.extend(stmts_ops(s.body))
            elif isinstance(s, ast.Try):
                out.extend(stmts_ops(s.body))
            elif isinstance(s, (ast.FunctionDef, ast.AsyncFunctionDef, ast.ClassDef)):
                continue
            else:
                for c in ast.iter_child_nodes(s):
                    if isinstance(c, ast.expr):
                        out.extend(expr_ops(c))
        return out

    return stmts_ops(func_node.body)


def kinds(ops):
    """drop argument texts: shape only"""
    out = []
    for o in ops:
        if o[0] in ("w", "r"):
            out.append((o[0], o[1]))
        elif o[0] == "call":
            out.append(o)
        elif o[0] == "rep":
            out.append(("rep", kinds(o[2])))
        elif o[0] == "if":
            out.append(("if", kinds(o[2]), kinds(o[3])))
    return out


def fmt(ops, depth=0):
    parts = []
    for o in ops:
        if o[0] in ("w", "r"):
            parts.append(f"{'write' if o[0] == 'w' else 'read'}_{o[1]}" + (f"({o[2]})" if len(o) > 2 and o[2] else ""))
        elif o[0] == "call":
            parts.append(f"{o[1]}(stream)")
        elif o[0] == "rep":
            parts.append(f"repeat[{fmt(o[-1], depth + 1)}]")
        elif o[0] == "if":
            parts.append(f"if[{fmt(o[-2], depth + 1)} | {fmt(o[-1], depth + 1)}]")
    return " ; ".join(parts)


def cond(text):
    """canonical condition text of an ("if", cond, then, else) op for a test written in source form (positive form required)"""
    term, pol = terms.atom(ast.parse(text, mode="eval").body)
    if not pol:
        raise ValueError(f"write the condition in its positive form: {text}")
    return term


def branch(op, text):
    """(ops when `text` holds, ops otherwise) of an ("if", cond, a, b) op, `text` in either polarity; None if the op tests something else"""
    term, pol = terms.atom(ast.parse(text, mode="eval").body)
    if op is None or op[0] != "if" or op[1] != term:
        return None
    return (op[2], op[3]) if pol else (op[3], op[2])
