"""Statement-level control-flow graph with guarded edges.

Nodes are simple statements, atomic tests (short-circuit `and`/`or`, `not`,
conditional expressions inside tests and comparison chains are split so that each
atomic test has its own true/false edges), loop heads, `with` entries, handler
entries and three synthetic nodes ENTRY, EXIT (normal return) and RAISE
(exception leaves the function).  `finally` bodies are inlined once per way of
leaving the protected region (normal, return, break, continue, exception).

Exception edges are coarse and conservative: every node created inside a `try`
body has an edge to every handler of that `try` (and, when no handler is a
catch-all, onwards to the enclosing try / RAISE).
"""
import ast

from . import AnalysisError
from .astutil import FUNC_NODES
from . import terms


class Label:
    """a fact established by taking an edge"""
    __slots__ = ("term", "pol", "expr", "whole")

    def __init__(self, term, pol, expr, whole=False):
        self.term, self.pol, self.expr, self.whole = term, pol, expr, whole

    def key(self):
        return (self.term, self.pol)

    def __repr__(self):
        return ("" if self.pol else "not ") + self.term


class Node:
    __slots__ = ("id", "kind", "ast", "succ", "pred", "in_try")

    def __init__(self, nid, kind, node):
        self.id, self.kind, self.ast = nid, kind, node
        self.succ, self.pred = [], []
        self.in_try = None

    @property
    def lineno(self):
        return getattr(self.ast, "lineno", 0)

    def __repr__(self):
        return f"<{self.id}:{self.kind}@{self.lineno}>"


class Edge:
    __slots__ = ("src", "dst", "labels", "kind")

    def __init__(self, src, dst, labels=(), kind="seq"):
        self.src, self.dst, self.labels, self.kind = src, dst, tuple(labels), kind

    def __repr__(self):
        return f"{self.src}->{self.dst}[{self.kind}{' ' + str(list(self.labels)) if self.labels else ''}]"


CATCH_ALL = {"Exception", "BaseException"}


class CFG:
    def __init__(self, func_node):
        self.func = func_node
        self.nodes = []
        self.by_ast = {}      # id(ast node) -> [Node]
        self.entry = self._new("entry", func_node)
        self.exit = self._new("exit", func_node)
        self.raise_exit = self._new("raise", func_node)
        self._loops = []      # (continue_target_node, break_frontier_list, try_depth)
        self._trys = []       # dict(handlers=[Node], catch_all=bool, finalbody=[stmts]|None, node=Try)
        frontier = self._seq(func_node.body, [(self.entry, (), "seq")])
        self._connect(frontier, self.exit)

    # ---------------------------------------------------------------- plumbing
    def _new(self, kind, node):
        n = Node(len(self.nodes), kind, node)
        self.nodes.append(n)
        if node is not None:
            self.by_ast.setdefault(id(node), []).append(n)
        return n

    def _connect(self, frontier, dst):
        for src, labels, kind in frontier:
            e = Edge(src, dst, labels, kind)
            src.succ.append(e)
            dst.pred.append(e)

    def _node(self, kind, node, frontier):
        n = self._new(kind, node)
        self._connect(frontier, n)
        self._exc_edges(n)
        return n

    def _exc_edges(self, n):
        """node n may raise: edge to the handlers of the innermost try with handlers; if that
        try has no catch-all, continue outwards."""
        # handled lazily in _finish_exc: record the try stack snapshot
        n.in_try = list(self._trys)

    # --------------------------------------------------------------- statements
    def _seq(self, stmts, frontier):
        for s in stmts:
            frontier = self._stmt(s, frontier)
        return frontier

    def _stmt(self, s, frontier):
        if isinstance(s, ast.If):
            t, f = self._test(s.test, frontier)
            a = self._seq(s.body, t)
            b = self._seq(s.orelse, f) if s.orelse else f
            return a + b
        if isinstance(s, ast.While):
            head = self._node("loop", s, frontier)
            brk = []
            self._loops.append((head, brk, len(self._trys)))
            t, f = self._test(s.test, [(head, (), "seq")])
            body_exit = self._seq(s.body, t)
            self._connect(body_exit, head)
            self._loops.pop()
            after = self._seq(s.orelse, f) if s.orelse else f
            return after + brk
        if isinstance(s, (ast.For, ast.AsyncFor)):
            it = self._node("foriter", s, frontier)       # evaluates s.iter once
            head = self._new("for", s)                     # binds target per iteration
            self._connect([(it, (), "seq")], head)
            head.in_try = list(self._trys)
            brk = []
            self._loops.append((head, brk, len(self._trys)))
            body_exit = self._seq(s.body, [(head, (), "iter")])
            self._connect(body_exit, head)
            self._loops.pop()
            f = [(head, (), "exhausted")]
            after = self._seq(s.orelse, f) if s.orelse else f
            return after + brk
        if isinstance(s, ast.Try):
            return self._try(s, frontier)
        if isinstance(s, (ast.With, ast.AsyncWith)):
            w = self._node("with", s, frontier)
            return self._seq(s.body, [(w, (), "seq")])
        if isinstance(s, ast.Return):
            n = self._node("return", s, frontier)
            fr = self._run_finallys([(n, (), "seq")], 0)
            self._connect(fr, self.exit)
            return []
        if isinstance(s, ast.Raise):
            n = self._node("raise", s, frontier)
            n.kind = "raise_stmt"
            return []
        if isinstance(s, ast.Assert):
            t, f = self._test(s.test, frontier)
            if f:
                n = self._node("assertfail", s, f)
                n.kind = "raise_stmt"
            return t
        if isinstance(s, ast.Break):
            n = self._node("break", s, frontier)
            head, brk, depth = self._loops[-1]
            brk.extend(self._run_finallys([(n, (), "seq")], depth))
            return []
        if isinstance(s, ast.Continue):
            n = self._node("continue", s, frontier)
            head, brk, depth = self._loops[-1]
            self._connect(self._run_finallys([(n, (), "seq")], depth), head)
            return []
        if isinstance(s, ast.Match):
            raise AnalysisError("match statement not supported by the CFG builder")
        # simple statements, nested defs, imports, pass, global ...
        n = self._node("stmt", s, frontier)
        return [(n, (), "seq")]

    def _run_finallys(self, frontier, down_to_depth):
        """inline the finally bodies of enclosing try statements, innermost first"""
        saved = self._trys
        for i in range(len(saved) - 1, down_to_depth - 1, -1):
            t = saved[i]
            if t["finalbody"] and not t.get("in_final"):
                self._trys = saved[:i]
                frontier = self._seq(t["finalbody"], frontier)
        self._trys = saved
        return frontier

    def _try(self, s, frontier):
        handlers = []
        catch_all = False
        for h in s.handlers:
            hn = self._new("except", h)
            hn.in_try = None  # set below (handler itself raises into the outer context)
            handlers.append(hn)
            if h.type is None:
                catch_all = True
            else:
                names = [h.type] if not isinstance(h.type, ast.Tuple) else h.type.elts
                for nm in names:
                    d = nm.attr if isinstance(nm, ast.Attribute) else getattr(nm, "id", None)
                    if d in CATCH_ALL:
                        catch_all = True
        ctx = {"handlers": handlers, "catch_all": catch_all, "finalbody": s.finalbody or None, "node": s}
        self._trys.append(ctx)
        body_exit = self._seq(s.body, frontier)
        # else-body and handlers are protected by the finally but not by the handlers
        ctx2 = {"handlers": [], "catch_all": False, "finalbody": s.finalbody or None, "node": s}
        self._trys[-1] = ctx2
        else_exit = self._seq(s.orelse, body_exit) if s.orelse else body_exit
        out = list(else_exit)
        for hn, h in zip(handlers, s.handlers):
            hn.in_try = list(self._trys)
            out.extend(self._seq(h.body, [(hn, (), "seq")]))
        self._trys.pop()
        if s.finalbody:
            out = self._seq(s.finalbody, out)
        return out

    # --------------------------------------------------------------------- tests
    def _test(self, expr, frontier, top=True):
        """returns (true_frontier, false_frontier)"""
        t, f = self._cond(expr, frontier)
        if top and terms.is_compound(expr):
            term, pol = terms.whole(expr)
            t = [(n, labels + (Label(term, pol, expr, True),), k) for n, labels, k in t]
            f = [(n, labels + (Label(term, not pol, expr, True),), k) for n, labels, k in f]
        return t, f

    def _cond(self, expr, frontier):
        if isinstance(expr, ast.UnaryOp) and isinstance(expr.op, ast.Not):
            t, f = self._cond(expr.operand, frontier)
            return f, t
        if isinstance(expr, ast.BoolOp):
            if isinstance(expr.op, ast.And):
                false_out, cur = [], frontier
                for v in expr.values:
                    t, f = self._cond(v, cur)
                    false_out.extend(f)
                    cur = t
                return cur, false_out
            true_out, cur = [], frontier
            for v in expr.values:
                t, f = self._cond(v, cur)
                true_out.extend(t)
                cur = f
            return true_out, cur
        if isinstance(expr, ast.IfExp):
            tc, fc = self._cond(expr.test, frontier)
            ta, fa = self._cond(expr.body, tc)
            tb, fb = self._cond(expr.orelse, fc)
            return ta + tb, fa + fb
        if isinstance(expr, ast.Compare) and len(expr.ops) > 1:
            false_out, cur = [], frontier
            for c in terms.split_chain(expr):
                before = len(self.nodes)
                t, f = self._cond(c, cur)
                self.by_ast.setdefault(id(expr), []).extend(self.nodes[before:])
                false_out.extend(f)
                cur = t
            return cur, false_out
        n = self._node("test", expr, frontier)
        if isinstance(expr, ast.Constant):
            if expr.value:
                return [(n, (), "true")], []
            return [], [(n, (), "false")]
        term, pol = terms.atom(expr)
        return ([(n, (Label(term, pol, expr),), "true")],
                [(n, (Label(term, not pol, expr),), "false")])

    # ------------------------------------------------------- exception plumbing
    def finish(self):
        """add exception edges (after all nodes exist)"""
        for n in list(self.nodes):
            stack = getattr(n, "in_try", None)
            if stack is None or n.kind in ("entry", "exit", "raise"):
                continue
            explicit = n.kind == "raise_stmt"
            self._route_exception(n, stack, explicit)
        return self

    def _route_exception(self, n, stack, explicit):
        """connect n's exceptional outcome: to handlers of enclosing trys (innermost first) until a
        catch-all; run finally bodies on the way; finally to RAISE.  For non-raise statements only
        edges to handlers are added (an implicit exception that no handler of this function
        catches simply leaves the function and is irrelevant to intra-function path rules,
        except through RAISE for explicit raise statements)."""
        frontier = [(n, (), "exc")]
        i = len(stack) - 1
        saved_trys, saved_loops = self._trys, self._loops
        while i >= 0:
            t = stack[i]
            for hn in t["handlers"]:
                self._connect(frontier, hn)
            if t["catch_all"]:
                self._trys, self._loops = saved_trys, saved_loops
                return
            if t["finalbody"] and explicit:
                self._trys = stack[:i]
                self._loops = []
                frontier = self._seq_no_exc(t["finalbody"], frontier)
            i -= 1
        self._trys, self._loops = saved_trys, saved_loops
        if explicit:
            self._connect(frontier, self.raise_exit)

    def _seq_no_exc(self, stmts, frontier):
        before = len(self.nodes)
        try:
            out = self._seq(stmts, frontier)
        except IndexError:
            # break/continue inside a finally reached exceptionally: ignore that path
            out = []
        for n in self.nodes[before:]:
            n.in_try = None
        return out

    # ------------------------------------------------------------------ queries
    def nodes_for(self, ast_node):
        return list(self.by_ast.get(id(ast_node), []))

    def stmt_nodes_containing(self, ast_node):
        """CFG nodes whose evaluated code contains ast_node (walks up parents)"""
        n = ast_node
        while n is not None:
            hit = self.by_ast.get(id(n))
            if hit:
                # For compound statements the registered node only evaluates part of the stmt
                return list(hit)
            n = getattr(n, "_parent", None)
        return []


def evaluated_exprs(node):
    """the AST sub-trees a CFG node actually evaluates"""
    a, k = node.ast, node.kind
    if k in ("entry", "exit", "raise"):
        return []
    if k == "test":
        return [a]
    if k == "loop":
        return []
    if k == "foriter":
        return [a.iter]
    if k == "for":
        return [a.target]
    if k == "with":
        out = []
        for it in a.items:
            out.append(it.context_expr)
            if it.optional_vars is not None:
                out.append(it.optional_vars)
        return out
    if k == "except":
        return [a.type] if a.type is not None else []
    if k == "raise_stmt" and isinstance(a, ast.Assert):
        return [a.msg] if a.msg is not None else []
    if isinstance(a, FUNC_NODES + (ast.ClassDef,)):
        return list(a.decorator_list)
    return [a]


def build(func_node):
    return CFG(func_node).finish()
