"""A small reader for the WHERE clause of the repo's literal SQL statements (rule family …/SQL).

The statements the properties depend on are plain `select … from … [joins] where <condition> [group by|order by|limit …]` strings.  The reader
tokenises the condition (identifiers, numbers, quoted strings, `?`, operators, parentheses), builds the and/or tree with SQL precedence
(NOT > AND > OR) and returns the TOP-LEVEL conjuncts in a normal text form — so a rule can require that `status='finished'` is a conjunct of the
whole condition, which `a and b and c or d` (an OR at the top level) does not satisfy."""
import re

_TOK = re.compile(r"\s*(?:(?P<str>'(?:[^']|'')*')|(?P<num>\d+(?:\.\d+)?)|(?P<id>[A-Za-z_][A-Za-z_0-9.]*)|(?P<op><>|!=|<=|>=|=|<|>|\?|,|\*|\|\||\+|-|/)|(?P<lp>\()|(?P<rp>\)))", re.S)
_END = ("group", "order", "limit", "union", "having")


def tokens(text):
    out, i = [], 0
    text = text.strip().rstrip(";")
    while i < len(text):
        m = _TOK.match(text, i)
        if not m or m.end() == i:
            raise ValueError(f"cannot tokenise SQL at {text[i:i + 20]!r}")
        i = m.end()
        k = m.lastgroup
        v = m.group(k)
        out.append((k, v.lower() if k == "id" else v))
    return out


def where_tokens(sql):
    """tokens of the (outermost) WHERE condition, or None when the statement has none"""
    ts = tokens(sql)
    depth, start = 0, None
    for i, (k, v) in enumerate(ts):
        if k == "lp":
            depth += 1
        elif k == "rp":
            depth -= 1
        elif depth == 0 and k == "id" and v == "where" and start is None:
            start = i + 1
        elif depth == 0 and start is not None and k == "id" and v in _END:
            return ts[start:i]
    return ts[start:] if start is not None else None


def _split(ts, word):
    parts, cur, depth = [], [], 0
    between = False
    for k, v in ts:
        if k == "lp":
            depth += 1
        elif k == "rp":
            depth -= 1
        if depth == 0 and k == "id" and v == "between":
            between = True
        if depth == 0 and k == "id" and v == word and not (word == "and" and between):
            parts.append(cur)
            cur = []
            continue
        if depth == 0 and k == "id" and v == "and" and between:
            between = False
        cur.append((k, v))
    parts.append(cur)
    return parts


def _strip_parens(ts):
    while len(ts) >= 2 and ts[0][0] == "lp" and ts[-1][0] == "rp":
        depth = 0
        for i, (k, _v) in enumerate(ts):
            depth += k == "lp"
            depth -= k == "rp"
            if depth == 0 and i < len(ts) - 1:
                return ts
        ts = ts[1:-1]
    return ts


def text(ts):
    out = ""
    for k, v in ts:
        if k in ("op",) and v in ("=", "<", ">", "<=", ">=", "<>", "!="):
            out = out.rstrip() + v
        elif k == "lp":
            out += "("
        elif k == "rp":
            out = out.rstrip() + ") "
        else:
            out += v + " "
    return re.sub(r"([=<>])\s+", r"\1", out).strip()


def tree(ts):
    """('or', [..]) / ('and', [..]) / ('atom', text)"""
    ts = _strip_parens(ts)
    ors = _split(ts, "or")
    if len(ors) > 1:
        return ("or", [tree(p) for p in ors])
    ands = _split(ts, "and")
    if len(ands) > 1:
        return ("and", [tree(p) for p in ands])
    return ("atom", text(ts))


def conjuncts(sql):
    """normal-form texts of the top-level conjuncts of the WHERE condition; an OR at the top level is ONE conjunct `(a or b)`"""
    ts = where_tokens(sql)
    if ts is None:
        return []
    t = tree(ts)

    def show(n):
        if n[0] == "atom":
            return n[1]
        return "(" + f" {n[0]} ".join(sorted(show(x) for x in n[1])) + ")"
    if t[0] == "and":
        return sorted(show(x) for x in t[1])
    return [show(t)]
