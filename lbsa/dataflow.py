"""Reaching definitions, local expansion and def-use dependence on the CFG."""
import ast

from .astutil import stmt_targets, dotted, walk_local, unparse, FUNC_NODES
from .cfg import evaluated_exprs


def clone(node):
    """deep copy of an AST sub-tree that ignores the `_parent` back links"""
    if isinstance(node, list):
        return [clone(x) for x in node]
    if not isinstance(node, ast.AST):
        return node
    new = node.__class__()
    for f in node._fields:
        if hasattr(node, f):
            setattr(new, f, clone(getattr(node, f)))
    for a in ("lineno", "col_offset", "end_lineno", "end_col_offset"):
        if hasattr(node, a):
            setattr(new, a, getattr(node, a))
    return new


class Def:
    __slots__ = ("name", "node", "value", "kind", "src")

    def __init__(self, name, node, value, kind, src=None):
        # value: the expression assigned (None when opaque: loop target, with-as, param, unpacking);
        # src: for unpacking / with-as the expression the value is taken from
        self.name, self.node, self.value, self.kind, self.src = name, node, value, kind, src

    def __repr__(self):
        return f"Def({self.name}@{self.node.lineno}:{self.kind})"


def _defs_of_node(n):
    a, k = n.ast, n.kind
    out = []
    if k in ("stmt", "return", "raise_stmt") and isinstance(a, ast.stmt):
        if isinstance(a, ast.Assign):
            for t in a.targets:
                _bind(t, a.value, n, out)
        elif isinstance(a, ast.AnnAssign) and a.value is not None:
            _bind(a.target, a.value, n, out)
        elif isinstance(a, ast.AugAssign):
            if isinstance(a.target, ast.Name):
                out.append(Def(a.target.id, n, None, "aug"))
        elif isinstance(a, (ast.Import, ast.ImportFrom, ast.FunctionDef, ast.AsyncFunctionDef, ast.ClassDef,
                            ast.Delete)):
            names, _ = stmt_targets(a)
            for nm in names:
                out.append(Def(nm, n, None, "other"))
    elif k == "for":
        names, _ = stmt_targets(a)
        for nm in names:
            out.append(Def(nm, n, None, "for"))
    elif k == "with":
        for it in a.items:
            if it.optional_vars is not None:
                _bind(it.optional_vars, None, n, out, kind="with", src=it.context_expr)
    elif k == "except" and a.name:
        out.append(Def(a.name, n, None, "except"))
    for e in evaluated_exprs(n):
        if e is None:
            continue
        for sub in walk_local(e):
            if isinstance(sub, ast.NamedExpr) and isinstance(sub.target, ast.Name):
                out.append(Def(sub.target.id, n, sub.value, "assign"))
    return out


def _bind(target, value, n, out, kind="assign", src=None):
    if isinstance(target, ast.Name):
        out.append(Def(target.id, n, value, kind if value is not None or kind != "assign" else "opaque", src))
    elif isinstance(target, (ast.Tuple, ast.List)):
        if isinstance(value, (ast.Tuple, ast.List)) and len(value.elts) == len(target.elts) \
                and not any(isinstance(e, ast.Starred) for e in target.elts + value.elts):
            for t, v in zip(target.elts, value.elts):
                _bind(t, v, n, out, kind)
        else:
            for i, t in enumerate(target.elts):
                if isinstance(t, ast.Starred):
                    t = t.value
                if isinstance(t, ast.Name):
                    out.append(Def(t.id, n, None, f"unpack:{i}", value if value is not None else src))
                elif isinstance(t, (ast.Tuple, ast.List)):
                    _bind(t, None, n, out, "unpack", value if value is not None else src)


def unpack_source(d):
    return d.src


class ReachingDefs:
    def __init__(self, cfg, params):
        self.cfg = cfg
        self.defs_at = {n.id: _defs_of_node(n) for n in cfg.nodes}
        self.param_defs = [Def(p, cfg.entry, None, "param") for p in params]
        # names whose object is mutated in place somewhere in the function: their defining expression
        # does not describe their later value, so they are never substituted
        self.mutated = set()
        from .astutil import MUTATORS as _MUT, walk_local_body as _wlb
        for sub in _wlb(cfg.func):
            if isinstance(sub, ast.Call) and isinstance(sub.func, ast.Attribute) and sub.func.attr in _MUT \
                    and isinstance(sub.func.value, ast.Name):
                self.mutated.add(sub.func.value.id)
            elif isinstance(sub, (ast.Assign, ast.AugAssign, ast.Delete)):
                tg = sub.targets if isinstance(sub, (ast.Assign, ast.Delete)) else [sub.target]
                for t in tg:
                    if isinstance(t, ast.Subscript) and isinstance(t.value, ast.Name):
                        self.mutated.add(t.value.id)
        self.IN = {}
        self._run()

    def _run(self):
        cfg = self.cfg
        IN = {n.id: frozenset() for n in cfg.nodes}
        OUT = {}
        entry_out = frozenset(self.param_defs)
        work = list(cfg.nodes)
        OUT[cfg.entry.id] = entry_out
        while work:
            n = work.pop()
            if n is cfg.entry:
                out = entry_out
            else:
                inn = frozenset().union(*[OUT.get(e.src.id, frozenset()) for e in n.pred]) if n.pred else frozenset()
                IN[n.id] = inn
                ds = self.defs_at[n.id]
                if ds:
                    killed = {d.name for d in ds}
                    out = frozenset(d for d in inn if d.name not in killed) | frozenset(ds)
                else:
                    out = inn
            if OUT.get(n.id) != out:
                OUT[n.id] = out
                for e in n.succ:
                    work.append(e.dst)
        self.IN, self.OUT = IN, OUT

    def reaching(self, name, node):
        """definitions of `name` reaching the *entry* of CFG node"""
        return [d for d in self.IN.get(node.id, ()) if d.name == name]

    def unique_value(self, name, node):
        if name in self.mutated:
            return None
        ds = self.reaching(name, node)
        if len(ds) == 1 and ds[0].kind == "assign" and ds[0].value is not None:
            return ds[0]
        return None

    # ---------------------------------------------------------------- expansion
    def expand(self, expr, node, depth=6, _seen=None, keep=()):
        """copy of expr with every local Name that has exactly one reaching plain assignment
        replaced by the assigned expression (recursively).  Names bound in comprehensions /
        lambdas inside expr are left alone."""
        _seen = _seen or frozenset()
        rd = self

        class T(ast.NodeTransformer):
            def __init__(self):
                self.bound = set()

            def visit_Lambda(self, n):
                return n

            def _comp(self, n):
                added = set()
                for g in n.generators:
                    for s in ast.walk(g.target):
                        if isinstance(s, ast.Name):
                            added.add(s.id)
                old = self.bound
                self.bound = old | added
                out = self.generic_visit(n)
                self.bound = old
                return out

            visit_ListComp = visit_SetComp = visit_DictComp = visit_GeneratorExp = _comp

            def visit_Name(self, n):
                if not isinstance(n.ctx, ast.Load) or n.id in self.bound or n.id in keep:
                    return n
                d = rd.unique_value(n.id, node)
                if d is None or depth <= 0 or (n.id, d.node.id) in _seen:
                    return n
                sub = rd.expand(d.value, d.node, depth - 1, _seen | {(n.id, d.node.id)}, keep)
                return sub

        return T().visit(clone(expr))

    # --------------------------------------------------------------- dependence
    def sources(self, expr, node, depth=12):
        """transitive def-use closure of expr evaluated at CFG node: returns a dict with
        names (params/free names), chains (attribute chains read), calls (dotted callee texts),
        consts, nodes (every AST node met, for shape queries), defs (Def objects traversed)"""
        res = {"params": set(), "free": set(), "chains": set(), "calls": set(), "consts": set(), "nodes": [],
               "defs": []}
        seen = set()
        todo = [(expr, node, frozenset())]
        while todo:
            e, at, bound = todo.pop()
            if e is None:
                continue
            for sub in ast.walk(e):
                res["nodes"].append(sub)
                if isinstance(sub, ast.Attribute):
                    d = dotted(sub)
                    if d:
                        res["chains"].add(d)
                elif isinstance(sub, ast.Call):
                    d = dotted(sub.func)
                    if d:
                        res["calls"].add(d)
                    elif isinstance(sub.func, ast.Attribute):
                        res["calls"].add("?." + sub.func.attr)
                elif isinstance(sub, ast.Constant):
                    try:
                        res["consts"].add(sub.value)
                    except TypeError:
                        pass
                elif isinstance(sub, ast.Name) and isinstance(sub.ctx, ast.Load):
                    ds = self.reaching(sub.id, at)
                    if not ds:
                        res["free"].add(sub.id)
                        continue
                    for d in ds:
                        if (id(d)) in seen:
                            continue
                        seen.add(id(d))
                        res["defs"].append(d)
                        if d.kind == "param":
                            res["params"].add(d.name)
                        elif d.value is not None:
                            todo.append((d.value, d.node, bound))
                        elif d.kind.startswith("unpack"):
                            todo.append((unpack_source(d), d.node, bound))
                        elif d.kind == "for":
                            todo.append((d.node.ast.iter, d.node, bound))
                        elif d.kind == "with":
                            todo.append((d.src, d.node, bound))
                        elif d.kind == "aug":
                            todo.append((d.node.ast.value, d.node, bound))
                            # the previous value too
                            for pd in self.reaching(d.name, d.node):
                                if id(pd) not in seen:
                                    seen.add(id(pd))
                                    res["defs"].append(pd)
                                    if pd.kind == "param":
                                        res["params"].add(pd.name)
                                    elif pd.value is not None:
                                        todo.append((pd.value, pd.node, bound))
        return res


def expanded_text(rd, expr, node):
    return unparse(rd.expand(expr, node))
